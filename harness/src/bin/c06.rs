//! C06 — Every Interaction Model operation is mediated by the access check.
//!
//! A real `InteractionModel` + default responder chain runs over a SYNTHETIC node (generated
//! endpoints / clusters / attributes / commands / events with generated `Access` declarations,
//! `vh::sim::imdev`) whose instrumented handler logs every read / write / invoke it is asked to
//! perform. A generated access-control configuration (the C05 generator) is installed, a
//! requester session (CASE on a fabric with node id + CATs, or PASE with / without fabric) is
//! planted, and a hand-encoded Read / Subscribe / Write / Invoke request with 1-8 concrete and
//! wildcard paths (repeats, non-existent ids, data-version filters, optional Timed request with a
//! virtual delay around its timeout) is sent by a hand-rolled controller.
//!
//! Oracle: a REFERENCE EXPANSION written from the property statement (node description x the
//! independent reference ACL decision of `c05.rs` x timed / fabric-scoped rules) predicts the
//! multiset of (path -> data | refusal) and the multiset of handler calls; both are compared with
//! what was observed.
//!
//! Sub-checks: `read` (Read + Subscribe priming, attributes and events), `write`, `write-chunked`
//! (a WriteRequest in 2-4 chunks with per-chunk TimedRequest flags and delays), `invoke`
//! (both with / without a Timed request), `dynamic-node` (endpoints disappear / appear between the
//! chunks of a long answer), `group` (the requester is a group: only member endpoints are
//! reachable; only the handler log is observable), `fabric-sensitive` (fabric-sensitive events
//! emitted under two fabrics).
//!
//! Debugging: `VH_LOG=1` prints the rs-matter log (virtual time stamps) while replaying a case.
//!
//! Re-use: `#[path = "c05.rs"] mod c05;` (items made `pub` mechanically by `pubify_c05.sh`).

#![allow(dead_code)]

#[path = "c05.rs"]
mod c05;
#[path = "c14.rs"]
#[allow(dead_code)]
mod c14;

use std::cell::RefCell;

use proptest::prelude::*;
use serde::{Deserialize, Serialize};

use rs_matter::dm::Access;

use vh::sim::imdev::tlv::{Enc, Tag, Val};
use vh::sim::imdev::*;
use vh::sim::{clock, Sched, Stop};
use vh::util::pick;
use vh::{Case, Run};

use c05::Expect;

// ---------------------------------------------------------------------------------------------
// Case types
// ---------------------------------------------------------------------------------------------

#[derive(Debug, Clone, PartialEq, Eq, Serialize, Deserialize)]
enum Who {
    Case { fab: u8, id: u64, cats: Vec<(u16, u16)> },
    Pase { fab: u8 },
    /// the device-side session is a group session of `group` on fabric `fab`
    Group { fab: u8, group: u16 },
}

/// (endpoint, cluster, event, priority, fabric index carried in the payload)
#[derive(Debug, Clone, PartialEq, Eq, Serialize, Deserialize)]
struct Emit {
    ep: u16,
    cl: u32,
    ev: u32,
    prio: u8,
    fab: Option<u8>,
}

#[derive(Debug, Clone, PartialEq, Eq, Serialize, Deserialize)]
enum Request {
    Read(ReadReq),
    Subscribe(SubscribeReq),
    Write { timed: Option<Timed>, flag: bool, items: Vec<WriteItem> },
    Invoke { timed: Option<Timed>, flag: bool, items: Vec<InvokeItem> },
    /// a WriteRequest sent as 2-4 chunks (MoreChunkedMessages) on one exchange
    WriteChunked { timed: Option<Timed>, chunks: Vec<WriteChunk> },
}

#[derive(Debug, Clone, Serialize, Deserialize)]
struct C06Case {
    node: NodeSpec,
    world: c05::World,
    who: Who,
    emits: Vec<Emit>,
    req: Request,
    /// `dynamic-node`: at chunk `i` (before it is confirmed) the hidden-endpoint set becomes `.1`
    changes: Vec<(u8, Vec<u16>)>,
    sched: Option<u64>,
    seed: u32,
}

// ---------------------------------------------------------------------------------------------
// Reference model
// ---------------------------------------------------------------------------------------------

/// Status codes of the "access denied / unsupported path" family (Matter Core spec, Interaction
/// Model status codes): UNSUPPORTED_ACCESS, UNSUPPORTED_ENDPOINT, UNSUPPORTED_CLUSTER,
/// UNSUPPORTED_ATTRIBUTE, UNSUPPORTED_COMMAND, UNSUPPORTED_EVENT, UNSUPPORTED_READ,
/// UNSUPPORTED_WRITE, NEEDS_TIMED_INTERACTION, UNSUPPORTED_NODE.
const REFUSAL_FAMILY: &[u16] = &[0x7e, 0x7f, 0xc3, 0x86, 0x81, 0xc7, 0x8f, 0x88, 0xc6, 0x9b];

fn in_family(code: u16) -> bool {
    REFUSAL_FAMILY.contains(&code)
}

struct Model<'a> {
    spec: &'a NodeSpec,
    world: c05::World,
    acc: c05::Acc,
    fab_idx: u8,
}

impl<'a> Model<'a> {
    fn new(spec: &'a NodeSpec, world: c05::World, who: &Who) -> Self {
        let (acc, fab_idx) = match who {
            Who::Case { fab, id, cats } => (
                c05::Acc { mode: Some(c05::Mode::Case), fab: *fab, id: *id, cats: cats.clone() },
                *fab,
            ),
            Who::Pase { fab } => (c05::Acc { mode: Some(c05::Mode::Pase), fab: *fab, id: 1, cats: vec![] }, *fab),
            Who::Group { fab, group } => (c05::Acc { mode: Some(c05::Mode::Group), fab: *fab, id: *group as u64, cats: vec![] }, *fab),
        };
        Self { spec, world, acc, fab_idx }
    }

    /// A group requester reaches only the endpoints that are members of its group (in its fabric).
    fn endpoint_ok(&self, ep: u16) -> bool {
        if self.acc.mode != Some(c05::Mode::Group) {
            return true;
        }
        let Some(f) = self.world.fabrics.get((self.fab_idx as usize).wrapping_sub(1)) else { return false };
        f.present && f.groups.iter().any(|g| g.id as u64 == self.acc.id && g.endpoints.contains(&ep))
    }

    fn fabless(&self) -> bool {
        self.fab_idx == 0
    }

    /// Is `write`/read of an element with declaration `access` on (ep, cl) granted?
    fn acl(&self, ep: &EndpointSpec, cl: u32, leaf: u32, access: u16, write: bool) -> Expect {
        if !self.endpoint_ok(ep.id) {
            return Expect::Deny;
        }
        match c05::need(Access::from_bits_truncate(access), write) {
            c05::Need::Unsupported => return Expect::Deny,
            c05::Need::NoneDeclared => return Expect::Either,
            _ => {}
        }
        let req = c05::Req { endpoint: ep.id, cluster: cl, leaf, device_types: ep.device_types.clone(), write, access };
        c05::combine(c05::ref_decide(&self.world, &self.acc, &req, true), c05::ref_decide(&self.world, &self.acc, &req, false)).0
    }
}

fn and(a: Expect, b: Expect) -> Expect {
    match (a, b) {
        (Expect::Deny, _) | (_, Expect::Deny) => Expect::Deny,
        (Expect::Allow, Expect::Allow) => Expect::Allow,
        _ => Expect::Either,
    }
}

#[derive(Debug, Clone, PartialEq)]
enum Want {
    Data(Val),
    /// a status of the refusal family
    Refused,
    /// success status
    Success,
    /// any non-success status (the handler rejected the operation)
    Failed,
}

#[derive(Debug, Clone)]
struct Exp {
    path: Path,
    /// acceptable alternatives
    want: Vec<Want>,
    required: bool,
    hit: bool,
}

impl Exp {
    fn new(path: Path, want: Vec<Want>, required: bool) -> Self {
        Self { path, want, required, hit: false }
    }
}

#[derive(Debug, Clone, PartialEq)]
enum Got {
    Data(Val),
    Status(u16),
}

fn want_matches(w: &Want, g: &Got) -> bool {
    match (w, g) {
        (Want::Data(a), Got::Data(b)) => a == b,
        (Want::Refused, Got::Status(s)) => in_family(*s),
        (Want::Success, Got::Status(s)) => *s == 0,
        (Want::Failed, Got::Status(s)) => *s != 0,
        _ => false,
    }
}

/// Maximum bipartite matching (Kuhn); `adj[l]` = right nodes acceptable for left node `l`.
/// Returns for every left node its partner.
fn kuhn(adj: &[Vec<usize>], n_right: usize) -> Vec<Option<usize>> {
    fn try_l(l: usize, adj: &[Vec<usize>], seen: &mut [bool], owner: &mut [Option<usize>]) -> bool {
        for &r in &adj[l] {
            if seen[r] {
                continue;
            }
            seen[r] = true;
            if owner[r].is_none() || try_l(owner[r].unwrap(), adj, seen, owner) {
                owner[r] = Some(l);
                return true;
            }
        }
        false
    }
    let mut owner: Vec<Option<usize>> = vec![None; n_right];
    for l in 0..adj.len() {
        let mut seen = vec![false; n_right];
        try_l(l, adj, &mut seen, &mut owner);
    }
    let mut partner = vec![None; adj.len()];
    for (r, o) in owner.iter().enumerate() {
        if let Some(l) = o {
            partner[*l] = Some(r);
        }
    }
    partner
}

/// Match the observed entries against the expected ones: every observed entry needs its own
/// prediction, every required prediction needs its own observed entry (by the Mendelsohn-Dulmage
/// theorem the two one-sided matchings imply a common one). `what` prefixes the signatures;
/// `classify(path, got)` names an unpredicted entry.
fn match_all(what: &str, exp: &mut [Exp], got: &[(Path, Got)], classify: &dyn Fn(&Path, &Got) -> &'static str) -> Result<(), (String, String)> {
    let ok = |e: &Exp, (p, g): &(Path, Got)| e.path == *p && e.want.iter().any(|w| want_matches(w, g));
    // observed -> predictions
    let adj: Vec<Vec<usize>> = got.iter().map(|it| exp.iter().enumerate().filter(|(_, e)| ok(e, it)).map(|(i, _)| i).collect()).collect();
    let partner = kuhn(&adj, exp.len());
    if let Some(i) = partner.iter().position(|p| p.is_none()) {
        let (p, g) = &got[i];
        let why = classify(p, g);
        let short = match g {
            Got::Data(v) => format!("data {}", brief(v)),
            Got::Status(s) => format!("status {s:#x}"),
        };
        let alts: Vec<String> = exp.iter().filter(|e| e.path == *p).map(|e| format!("{:?}{}", e.want.iter().map(brief_want).collect::<Vec<_>>(), if e.required { "" } else { " (optional)" })).collect();
        let same = got.iter().filter(|(q, _)| q == p).count();
        return Err((format!("{what}:{why}"), format!("{short} for {p:?} is not predicted by the reference expansion ({same} answer entries for this path); predictions for this path: {alts:?}")));
    }
    for (i, p) in partner.iter().enumerate() {
        let _ = i;
        if let Some(r) = p {
            exp[*r].hit = true;
        }
    }
    // required predictions -> observed
    let req: Vec<usize> = exp.iter().enumerate().filter(|(_, e)| e.required).map(|(i, _)| i).collect();
    let adj: Vec<Vec<usize>> = req.iter().map(|&ei| got.iter().enumerate().filter(|(_, it)| ok(&exp[ei], it)).map(|(i, _)| i).collect()).collect();
    let partner = kuhn(&adj, got.len());
    if let Some(i) = partner.iter().position(|p| p.is_none()) {
        let e = &exp[req[i]];
        let kind = if e.want.iter().any(|w| matches!(w, Want::Data(_))) { "missing-data" } else { "missing-status" };
        let have: Vec<String> = got.iter().filter(|(q, _)| *q == e.path).map(|(_, g)| match g {
            Got::Data(v) => format!("data {}", brief(v)),
            Got::Status(s) => format!("status {s:#x}"),
        }).collect();
        return Err((format!("{what}:{kind}"), format!("the reference expansion predicts {:?} for {:?} but the answer does not contain it (answer entries for this path: {have:?})", e.want.iter().map(brief_want).collect::<Vec<_>>(), e.path)));
    }
    Ok(())
}

fn brief(v: &Val) -> String {
    let s = format!("{v:?}");
    if s.len() > 60 {
        format!("{}..({} chars)", &s[..60], s.len())
    } else {
        s
    }
}

fn brief_want(w: &Want) -> String {
    match w {
        Want::Data(v) => format!("Data({})", brief(v)),
        o => format!("{o:?}"),
    }
}

#[derive(Debug, Clone, PartialEq, Eq, PartialOrd, Ord)]
struct CallKey {
    op: Op,
    ep: u16,
    cl: u32,
    leaf: u32,
    list_index: Option<Option<u16>>,
    data: Option<Value>,
}

#[derive(Debug, Clone)]
struct ExpCall {
    key: CallKey,
    required: bool,
    hit: bool,
}

fn match_calls(what: &str, exp: &mut [ExpCall], calls: &[HandlerCall], model: &Model<'_>) -> Result<(), (String, String)> {
    let key_of = |c: &HandlerCall| CallKey { op: c.op, ep: c.endpoint, cl: c.cluster, leaf: c.leaf, list_index: c.list_index, data: c.data.clone() };
    let keys: Vec<CallKey> = calls.iter().map(key_of).collect();
    let adj: Vec<Vec<usize>> = keys.iter().map(|k| exp.iter().enumerate().filter(|(_, e)| e.key == *k).map(|(i, _)| i).collect()).collect();
    let partner = kuhn(&adj, exp.len());
    if let Some(i) = partner.iter().position(|p| p.is_none()) {
        let (c, key) = (&calls[i], &keys[i]);
        let same_elem = exp.iter().any(|e| (e.key.op, e.key.ep, e.key.cl, e.key.leaf) == (key.op, key.ep, key.cl, key.leaf));
        let why = if same_elem { "handler-called-too-often-or-with-other-data" } else { "handler-called-without-permission" };
        return Err((format!("{what}:{why}"), format!("the cluster handler was asked to {:?} {}/{:#x}/{:#x} (list index {:?}, data {:?}) which the reference expansion does not predict", c.op, c.endpoint, c.cluster, c.leaf, c.list_index, c.data)));
    }
    for c in calls {
        if c.fab_idx != model.fab_idx {
            return Err((format!("{what}:handler-got-wrong-fabric-index"), format!("handler call {:?} {}/{:#x}/{:#x} carries fabric index {} but the requester's is {}", c.op, c.endpoint, c.cluster, c.leaf, c.fab_idx, model.fab_idx)));
        }
    }
    let req: Vec<usize> = exp.iter().enumerate().filter(|(_, e)| e.required).map(|(i, _)| i).collect();
    let adj: Vec<Vec<usize>> = req.iter().map(|&ei| keys.iter().enumerate().filter(|(_, k)| **k == exp[ei].key).map(|(i, _)| i).collect()).collect();
    let partner = kuhn(&adj, keys.len());
    if let Some(i) = partner.iter().position(|p| p.is_none()) {
        let e = &exp[req[i]];
        return Err((format!("{what}:permitted-operation-not-performed"), format!("the reference expansion predicts that the handler performs {:?}, but it was not asked to (or not often enough)", e.key)));
    }
    Ok(())
}

// ---------------------------------------------------------------------------------------------
// Running one case
// ---------------------------------------------------------------------------------------------

#[derive(Debug, Clone, Default)]
struct Times {
    timed_sent: u64,
    timed_acked: u64,
    action_sent: u64,
    answered: u64,
}

enum Outcome {
    Read(ReadOutcome),
    Write(WriteOutcome),
    Invoke(InvokeOutcome),
    /// + length of the handler call log right after the answer to each chunk
    WriteChunked(ChunkedWriteOutcome, Vec<usize>),
}

struct Observed {
    outcome: Outcome,
    calls: Vec<HandlerCall>,
    installed: c05::World,
    emitted: Vec<Result<u64, String>>,
    /// virtual µs between "Timed status received" and "action sent"
    delay_seen: u64,
    /// virtual µs between "Timed request sent" and "answer received"
    span_seen: u64,
    hidden_log: Vec<(usize, Vec<u16>)>,
}

fn requester(who: &Who) -> Requester {
    match who {
        Who::Case { fab, id, cats } => {
            let mut c = [0u32; 3];
            for (i, (id, ver)) in cats.iter().take(3).enumerate() {
                c[i] = ((*id as u32) << 16) | *ver as u32;
            }
            Requester::Case { fab_idx: *fab, node_id: *id, cats: c }
        }
        Who::Pase { fab } => Requester::Pase { fab_idx: *fab },
        Who::Group { fab, group } => Requester::Group { fab_idx: *fab, group_id: *group },
    }
}

fn event_payload(e: &Emit, n: usize) -> Vec<u8> {
    let mut enc = Enc::new();
    enc.start_struct(Tag::Anon).bytes(Tag::Ctx(0), &[n as u8, e.ep as u8, e.ev as u8]);
    if let Some(f) = e.fab {
        enc.uint(Tag::Ctx(0xfe), f as u64);
    }
    enc.end();
    enc.buf
}

fn run_case(case: &C06Case) -> Result<Observed, Case> {
    vh::sim::reset_universe();
    ABANDONED.with(|a| *a.borrow_mut() = None);
    let node = SynthNode::new(&case.node);
    let rig = ImRig::new(case.seed);
    let installed = match c05::install(&rig.dev, &case.world) {
        Ok(i) => i,
        Err(e) => return Err(Case::inconclusive(format!("install: {e}"))),
    };
    let mut world = case.world.clone();
    for (f, inst) in world.fabrics.iter_mut().zip(installed) {
        f.entries = inst;
    }
    let sid = match rig.plant(&requester(&case.who)) {
        Ok(s) => s,
        Err(e) => return Err(Case::inconclusive(format!("plant: {:?}", e.code()))),
    };
    for (n, e) in case.emits.iter().enumerate() {
        rig.emit_event(e.ep, e.cl, e.ev, e.prio, event_payload(e, n));
    }
    let result: RefCell<Option<(Outcome, u64, u64)>> = RefCell::new(None);
    let hidden_log: RefCell<Vec<(usize, Vec<u16>)>> = RefCell::new(Vec::new());
    let sched = match case.sched {
        None => Sched::Fifo,
        Some(s) => Sched::Seeded(s),
    };
    let (stop, done) = rig.run(&node, sched, 2, 400, async {
        rig.flush().await;
        let mut ex = match rig.exchange(sid) {
            Ok(e) => e,
            Err(_) => return,
        };
        let mut on_chunk = |i: usize, _: &ReadOutcome| {
            for (at, hidden) in &case.changes {
                if *at as usize == i {
                    node.set_hidden(hidden);
                    hidden_log.borrow_mut().push((i, hidden.clone()));
                }
            }
        };
        let o = match &case.req {
            Request::Read(r) => (Outcome::Read(read(&mut ex, r, &mut on_chunk).await), 0, 0),
            Request::Subscribe(s) => (Outcome::Read(subscribe(&mut ex, s, &mut on_chunk).await), 0, 0),
            Request::Write { flag, items, .. } if matches!(case.who, Who::Group { .. }) => {
                let r = send_only(&mut ex, rs_matter::im::OpCode::WriteRequest, &encode_write(items, *flag), 2000).await;
                (Outcome::Write(WriteOutcome { error: r.err(), ..Default::default() }), 0, 0)
            }
            Request::Invoke { flag, items, .. } if matches!(case.who, Who::Group { .. }) => {
                let r = send_only(&mut ex, rs_matter::im::OpCode::InvokeRequest, &encode_invoke(items, *flag), 2000).await;
                (Outcome::Invoke(InvokeOutcome { error: r.err(), ..Default::default() }), 0, 0)
            }
            Request::WriteChunked { timed, chunks } => {
                let mut marks: Vec<usize> = Vec::new();
                let w = write_chunked(&mut ex, *timed, chunks, &mut |_, _| marks.push(node.calls().len())).await;
                // anything the device still does after the interaction ended shows up in the log
                embassy_time::Timer::after(embassy_time::Duration::from_millis(300)).await;
                (Outcome::WriteChunked(w, marks), 0, 0)
            }
            Request::Write { timed, flag, items } => {
                let w = write(&mut ex, *timed, *flag, items).await;
                let (d, s) = (w.times[2].saturating_sub(w.times[1]), w.times[3].saturating_sub(w.times[0]));
                (Outcome::Write(w), d, s)
            }
            Request::Invoke { timed, flag, items } => {
                let w = invoke(&mut ex, *timed, *flag, items).await;
                let (d, s) = (w.times[2].saturating_sub(w.times[1]), w.times[3].saturating_sub(w.times[0]));
                (Outcome::Invoke(w), d, s)
            }
        };
        *result.borrow_mut() = Some(o);
    });
    if stop == Stop::PollLimit {
        return Err(Case::inconclusive("poll watchdog"));
    }
    let Some((outcome, delay_seen, span_seen)) = result.into_inner() else {
        return Err(Case::inconclusive(format!("the controller did not finish (stop={stop:?}, done={done})")));
    };
    let emitted = rig.emitted.borrow().clone();
    Ok(Observed {
        outcome,
        calls: node.calls(),
        installed: world,
        emitted,
        delay_seen,
        span_seen,
        hidden_log: hidden_log.into_inner(),
    })
}

// ---------------------------------------------------------------------------------------------
// Oracles
// ---------------------------------------------------------------------------------------------

fn is_global_attr(id: u32) -> bool {
    (0xFFF8..=0xFFFF).contains(&id)
}

struct Stats {
    labels: Vec<String>,
    mixed_wildcard: bool,
    concrete_refused: bool,
}

impl Stats {
    fn new() -> Self {
        Self { labels: Vec::new(), mixed_wildcard: false, concrete_refused: false }
    }
    fn label(&mut self, l: &str) {
        if !self.labels.iter().any(|x| x == l) {
            self.labels.push(l.to_string());
        }
    }
    fn nontrivial(&self) -> bool {
        self.mixed_wildcard || self.concrete_refused
    }
}

/// Expected attribute reports and handler reads for a list of attribute paths.
/// `visible_throughout(ep)` / `maybe_visible(ep)` support the dynamic-node sub-check.
fn expect_attr_reads(
    m: &Model<'_>,
    paths: &[Path],
    dv_filters: &[(u16, u32, u32)],
    stable: &dyn Fn(u16) -> bool,
    st: &mut Stats,
) -> (Vec<Exp>, Vec<ExpCall>, bool) {
    let mut exp = Vec::new();
    let mut calls = Vec::new();
    let mut maybe_invalid = false;
    for p in paths {
        if p.cluster.is_none() && p.leaf.is_some_and(|l| !is_global_attr(l)) {
            // Wildcard cluster with a concrete non-global attribute: the statement is silent;
            // the Matter specification makes the whole action invalid.
            maybe_invalid = true;
        }
        if !p.is_wildcard() {
            let (ep, cl, at) = (p.endpoint.unwrap(), p.cluster.unwrap(), p.leaf.unwrap());
            let found = m.spec.endpoint(ep).and_then(|e| e.clusters.iter().find(|c| c.id == cl).map(|c| (e, c))).and_then(|(e, c)| c.attributes.iter().find(|a| a.id == at).map(|a| (e, c, a)));
            match found {
                None => {
                    st.concrete_refused = true;
                    st.label("concrete-absent");
                    exp.push(Exp::new(*p, vec![Want::Refused], true));
                }
                Some((e, c, a)) => {
                    let d = m.acl(e, c.id, a.id, a.access, false);
                    let value = initial_value(e.id, c.id, a).to_val();
                    let filtered = dv_filters.iter().any(|(fe, fc, fv)| *fe == e.id && *fc == c.id && *fv == c.dataver);
                    let stable_ep = stable(e.id);
                    let mut want = Vec::new();
                    if d != Expect::Deny {
                        want.push(Want::Data(value));
                    }
                    if d != Expect::Allow || !stable_ep {
                        want.push(Want::Refused);
                    }
                    if d == Expect::Deny {
                        st.concrete_refused = true;
                        st.label("concrete-denied");
                    }
                    if d == Expect::Either {
                        st.label("either");
                    }
                    // with a matching data version filter the data may be omitted altogether
                    exp.push(Exp::new(*p, want, !(filtered && d != Expect::Deny)));
                    if d != Expect::Deny {
                        calls.push((e.id, c.id, a, false));
                    }
                }
            }
        } else {
            let (mut some_ok, mut some_not) = (false, false);
            for e in &m.spec.endpoints {
                for c in &e.clusters {
                    for a in &c.attributes {
                        if !p.matches(e.id, c.id, a.id) {
                            continue;
                        }
                        let d = m.acl(e, c.id, a.id, a.access, false);
                        if d == Expect::Deny {
                            some_not = true;
                            continue;
                        }
                        some_ok = true;
                        let filtered = dv_filters.iter().any(|(fe, fc, fv)| *fe == e.id && *fc == c.id && *fv == c.dataver);
                        let required = d == Expect::Allow && !filtered && stable(e.id);
                        if d == Expect::Either {
                            st.label("either");
                        }
                        exp.push(Exp::new(Path::concrete(e.id, c.id, a.id), vec![Want::Data(initial_value(e.id, c.id, a).to_val())], required));
                        calls.push((e.id, c.id, a, true));
                    }
                }
            }
            if some_ok && some_not {
                st.mixed_wildcard = true;
                st.label("wildcard-mixed");
            } else if some_ok {
                st.label("wildcard-all-permitted");
            } else if some_not {
                st.label("wildcard-nothing-permitted");
            } else {
                st.label("wildcard-matches-nothing");
            }
        }
    }
    // Handler reads: a subset of what is permitted. A list attribute may be read whole and then
    // item by item (any number of times: the engine re-reads after a chunk boundary).
    let mut exp_calls = Vec::new();
    for (ep, cl, a, _) in calls {
        let mk = |li: Option<Option<u16>>| ExpCall { key: CallKey { op: Op::Read, ep, cl, leaf: a.id, list_index: li, data: None }, required: false, hit: false };
        // generous multiplicity: reads are not effects; the property only bounds them by "permitted"
        for _ in 0..4 {
            exp_calls.push(mk(None));
        }
        if a.is_list {
            for _ in 0..4 {
                exp_calls.push(mk(Some(None)));
                for i in 0..=(a.items as u16) {
                    exp_calls.push(mk(Some(Some(i))));
                }
            }
        }
    }
    (exp, exp_calls, maybe_invalid)
}

fn event_access(m: &Model<'_>, e: &Emit) -> Option<(Expect, u16)> {
    let ep = m.spec.endpoint(e.ep)?;
    let cl = ep.clusters.iter().find(|c| c.id == e.cl)?;
    let ev = cl.events.iter().find(|x| x.id == e.ev)?;
    Some((m.acl(ep, cl.id, ev.id, ev.access, false), ev.access))
}

/// Expected event reports. `strict_fabric`: an event carrying another fabric's index must not be
/// reported at all (the statement); otherwise only when the read is fabric-filtered (and either
/// outcome is accepted for non-filtered reads).
fn expect_events(m: &Model<'_>, req: &ReadReq, emits: &[Emit], emitted: &[Result<u64, String>], strict_fabric: bool, st: &mut Stats) -> Vec<Exp> {
    let mut exp = Vec::new();
    let Some(paths) = &req.events else { return exp };
    // statuses for concrete paths
    let mut usable: Vec<(Path, Expect)> = Vec::new();
    for p in paths {
        if p.is_wildcard() {
            usable.push((*p, Expect::Allow));
            continue;
        }
        let (ep, cl, ev) = (p.endpoint.unwrap(), p.cluster.unwrap(), p.leaf.unwrap());
        let cluster = m.spec.endpoint(ep).and_then(|e| e.clusters.iter().find(|c| c.id == cl).map(|c| (e, c)));
        match cluster {
            None => {
                st.concrete_refused = true;
                st.label("event-path-absent");
                exp.push(Exp::new(*p, vec![Want::Refused], true));
            }
            Some((e, c)) => match c.events.iter().find(|x| x.id == ev) {
                // Unknown event id on an existing cluster: the repository deliberately reports
                // nothing (see the TODO in `report_events`); the statement wants a status. Both
                // are accepted here and the discrepancy is mentioned in the report.
                None => exp.push(Exp::new(*p, vec![Want::Refused], false)),
                Some(x) => {
                    let d = m.acl(e, c.id, x.id, x.access, false);
                    match d {
                        Expect::Allow => {}
                        Expect::Deny => {
                            st.concrete_refused = true;
                            st.label("event-path-denied");
                            exp.push(Exp::new(*p, vec![Want::Refused], true));
                        }
                        Expect::Either => exp.push(Exp::new(*p, vec![Want::Refused], false)),
                    }
                    usable.push((*p, d));
                }
            },
        }
    }
    for (n, e) in emits.iter().enumerate() {
        let Some(Ok(number)) = emitted.get(n) else { continue };
        if req.event_min.is_some_and(|min| *number < min) {
            continue;
        }
        let Some((d, _)) = event_access(m, e) else { continue };
        // which request paths select it
        let mut sel = Expect::Deny;
        let mut k = 0;
        for (p, pd) in &usable {
            if p.matches(e.ep, e.cl, e.ev) {
                k += 1;
                sel = match (sel, *pd) {
                    (Expect::Allow, _) | (_, Expect::Allow) => Expect::Allow,
                    (Expect::Either, _) | (_, Expect::Either) => Expect::Either,
                    _ => Expect::Deny,
                };
            }
        }
        let mut d = and(d, sel);
        if let Some(f) = e.fab {
            if f != m.fab_idx {
                if strict_fabric || req.fabric_filtered {
                    d = Expect::Deny;
                } else {
                    d = and(d, Expect::Either);
                }
                st.label("event-of-other-fabric");
            }
        }
        if d == Expect::Deny {
            continue;
        }
        let value = tlv::parse(&event_payload(e, n)).map(|(_, v)| v).unwrap_or(Val::Null);
        // the number is part of the identity: encode it into the expected value
        let want = Val::Struct(vec![(Tag::Ctx(0), Val::U(*number)), (Tag::Ctx(1), value)]);
        exp.push(Exp::new(Path::concrete(e.ep, e.cl, e.ev), vec![Want::Data(want.clone())], d == Expect::Allow));
        for _ in 1..k {
            exp.push(Exp::new(Path::concrete(e.ep, e.cl, e.ev), vec![Want::Data(want.clone())], false));
        }
    }
    exp
}

fn got_events(o: &ReadOutcome) -> Vec<(Path, Got)> {
    o.events
        .iter()
        .map(|e| match &e.body {
            EventBody::Data { number, value, .. } => (e.path, Got::Data(Val::Struct(vec![(Tag::Ctx(0), Val::U(*number)), (Tag::Ctx(1), value.clone())]))),
            EventBody::Status(s) => (e.path, Got::Status(*s)),
        })
        .collect()
}

fn fail((sig, detail): (String, String), case: &C06Case) -> Case {
    Case::fail(sig, format!("{detail}; requester {:?}; request {:?}", case.who, case.req))
}

fn check_read(case: &C06Case, strict_fabric: bool) -> Case {
    let obs = match run_case(case) {
        Ok(o) => o,
        Err(c) => return c,
    };
    let model = Model::new(&case.node, obs.installed.clone(), &case.who);
    let mut st = Stats::new();
    let (rreq, is_sub) = match &case.req {
        Request::Read(r) => (r, false),
        Request::Subscribe(s) => (&s.read, true),
        _ => return Case::inconclusive("not a read"),
    };
    let Outcome::Read(out) = &obs.outcome else { return Case::inconclusive("outcome kind") };
    st.label(if is_sub { "subscribe" } else { "read" });
    st.label(match case.who {
        Who::Case { .. } => "requester:case",
        Who::Pase { fab: 0 } => "requester:pase-fabricless",
        Who::Pase { .. } => "requester:pase-with-fabric",
        Who::Group { .. } => "requester:group",
    });
    // which endpoints were visible during the whole answer (dynamic-node)
    let ever_hidden: Vec<u16> = case.changes.iter().flat_map(|(_, h)| h.iter().copied()).collect();
    let dynamic = !case.changes.is_empty();
    let stable = |ep: u16| !ever_hidden.contains(&ep);
    let attr_paths: &[Path] = rreq.attrs.as_deref().unwrap_or(&[]);
    let (mut exp, mut exp_calls, maybe_invalid) = expect_attr_reads(&model, attr_paths, &rreq.dataver_filters, &stable, &mut st);
    if dynamic {
        // elements of endpoints that were hidden at some point may or may not be reported
        for e in exp.iter_mut() {
            if let Some(ep) = e.path.endpoint {
                if !stable(ep) && !e.path.is_wildcard() && e.want.iter().any(|w| matches!(w, Want::Data(_))) && e.want.len() == 1 {
                    e.required = false;
                }
            }
        }
    }
    // a fabric-sensitive event of another fabric is never reported, whatever the request says
    let mut exp_ev = expect_events(&model, rreq, &case.emits, &obs.emitted, true, &mut st);

    // A subscription to something that is not (surely) there / permitted may be refused as a whole.
    let mut refusable = maybe_invalid;
    if is_sub {
        if rreq.attrs.is_none() && rreq.events.is_none() {
            refusable = true;
        }
        for p in attr_paths {
            if p.is_wildcard() {
                let any = exp.iter().any(|e| e.required && p.matches(e.path.endpoint.unwrap_or(0), e.path.cluster.unwrap_or(0), e.path.leaf.unwrap_or(0)) && !e.path.is_wildcard());
                if !any {
                    refusable = true;
                }
            }
        }
        if exp.iter().any(|e| e.want.contains(&Want::Refused)) || exp_ev.iter().any(|e| e.want.contains(&Want::Refused)) {
            refusable = true;
        }
    }
    if let Some(err) = &out.error {
        if is_sub && refusable {
            // an invalid subscription may also simply be dropped
            return Case::pass(st.nontrivial()).labels(st.labels).label("subscribe-refused(silently)");
        }
        let why = ABANDONED.with(|a| a.borrow().clone());
        let sig = match &why {
            _ if err.starts_with("answer does not end") => "read:answer-does-not-end".to_string(),
            Some(e) => format!("read:no-answer(device abandoned the exchange: {e})"),
            None => "read:no-answer".to_string(),
        };
        return Case::fail(sig, format!("the device did not answer the request properly: {err} (after {} report chunk(s)); device-side error: {why:?}; requester {:?}; request {:?}", out.chunks, case.who, case.req));
    }
    if let Some(s) = out.status {
        if refusable && s != 0 && out.attrs.is_empty() && out.events.is_empty() {
            let only_reads = obs.calls.iter().all(|c| c.op == Op::Read);
            if !only_reads {
                return Case::fail("read:effect-on-refused-request", format!("calls {:?}", obs.calls));
            }
            return Case::pass(st.nontrivial()).labels(st.labels).label("refused-as-a-whole");
        }
        return Case::fail("read:refused-without-reason", format!("StatusResponse {s:#x} instead of the report (after {} report chunk(s)); requester {:?}; request {:?}", out.chunks, case.who, case.req));
    }
    if is_sub && out.subscribed.is_none() {
        return Case::fail("read:subscribe-not-confirmed", format!("priming report without SubscribeResponse; requester {:?}; request {:?}", case.who, case.req));
    }
    let folded = match fold_lists(&out.attrs) {
        Ok(f) => f,
        Err(e) => return Case::fail("read:malformed-list-chunking", e),
    };
    let got: Vec<(Path, Got)> = folded
        .into_iter()
        .map(|(p, b)| match b {
            ReportBody::Data { value, .. } => (p, Got::Data(value)),
            ReportBody::Status(s) => (p, Got::Status(s)),
        })
        .collect();
    let spec = &case.node;
    let classify = |p: &Path, g: &Got| -> &'static str {
        match g {
            Got::Status(_) if p.is_wildcard() => "status-for-wildcard-path",
            Got::Status(0) => "success-status-in-report",
            Got::Status(_) => "unexpected-status",
            Got::Data(_) => {
                let exists = !p.is_wildcard() && spec.cluster(p.endpoint.unwrap(), p.cluster.unwrap()).is_some_and(|c| c.attributes.iter().any(|a| Some(a.id) == p.leaf));
                if !exists {
                    "data-for-nonexistent-element"
                } else if !attr_paths.iter().any(|q| q.matches(p.endpoint.unwrap(), p.cluster.unwrap(), p.leaf.unwrap())) {
                    "data-not-requested"
                } else {
                    "data-leaked-or-duplicated-or-wrong"
                }
            }
        }
    };
    if let Err(f) = match_all("read", &mut exp, &got, &classify) {
        return fail(f, case);
    }
    let emits = &case.emits;
    let (my_fab, filtered) = (model.fab_idx, rreq.fabric_filtered);
    let classify_ev = |p: &Path, g: &Got| -> &'static str {
        match g {
            Got::Status(_) if p.is_wildcard() => "event-status-for-wildcard-path",
            Got::Status(_) => "unexpected-event-status",
            Got::Data(v) => {
                // is it an event that carries another fabric's index?
                let foreign = v.ctx(1).and_then(|d| d.ctx(0xfe)).and_then(|f| f.u()).is_some_and(|f| f as u8 != my_fab);
                let _ = emits;
                if foreign && filtered {
                    "fabric-sensitive-event-of-other-fabric-disclosed(fabric-filtered-read)"
                } else if foreign {
                    "fabric-sensitive-event-of-other-fabric-disclosed(non-fabric-filtered-read)"
                } else {
                    "event-leaked-or-duplicated-or-wrong"
                }
            }
        }
    };
    if let Err(f) = match_all("read", &mut exp_ev, &got_events(out), &classify_ev) {
        return fail(f, case);
    }
    if let Err(f) = match_calls("read", &mut exp_calls, &obs.calls, &model) {
        return fail(f, case);
    }
    if let Some(c) = obs.calls.iter().find(|c| c.fab_filter != rreq.fabric_filtered) {
        return Case::fail("read:handler-got-wrong-fabric-filter-flag", format!("request fabric_filtered={} but handler call {c:?}", rreq.fabric_filtered));
    }
    if out.chunks > 1 {
        st.label("chunked");
    }
    if rreq.events.is_some() {
        st.label("with-events");
    }
    if !rreq.dataver_filters.is_empty() {
        st.label("with-dataver-filter");
    }
    if dynamic && !obs.hidden_log.is_empty() {
        st.label("composition-changed");
        return Case::pass(out.chunks > 1).labels(st.labels);
    }
    if strict_fabric {
        // fabric-sensitive sub-check: an event of another fabric was emitted and selected
        let nt = st.labels.iter().any(|l| l == "event-of-other-fabric");
        return Case::pass(nt).labels(st.labels);
    }
    Case::pass(st.nontrivial()).labels(st.labels)
}

/// Is the action inside a valid timed interaction? `Allow` = surely, `Deny` = surely not.
fn timed_state(timed: &Option<Timed>, flag: bool, timed_status: Option<u16>, obs: &Observed, st: &mut Stats) -> (Expect, bool) {
    match (timed, flag) {
        (None, false) => (Expect::Deny, false),
        (None, true) => {
            st.label("timed:flag-without-timed-request");
            (Expect::Deny, true)
        }
        (Some(_), false) => {
            st.label("timed:timed-request-without-flag");
            (Expect::Deny, true)
        }
        (Some(t), true) => {
            if timed_status != Some(0) {
                return (Expect::Either, true);
            }
            let limit = t.timeout_ms as u64 * 1000;
            if obs.delay_seen == limit {
                st.label("timed:exactly-at-the-timeout");
            }
            if obs.span_seen <= limit {
                st.label("timed:in-time");
                (Expect::Allow, false)
            } else if obs.delay_seen > limit {
                st.label("timed:expired");
                (Expect::Deny, true)
            } else {
                st.label("timed:undecided(clock-moved)");
                (Expect::Either, true)
            }
        }
    }
}

fn write_accepts(a: &AttrSpec, item: &WriteItem) -> bool {
    matches!(
        (a.is_list, &item.value, item.list_index),
        (false, Value::Scalar(_), None) | (true, Value::List(_), None) | (true, Value::Scalar(_), Some(None))
    )
}

fn check_write(case: &C06Case) -> Case {
    let obs = match run_case(case) {
        Ok(o) => o,
        Err(c) => return c,
    };
    let model = Model::new(&case.node, obs.installed.clone(), &case.who);
    let mut st = Stats::new();
    let Request::Write { timed, flag, items } = &case.req else { return Case::inconclusive("not a write") };
    let Outcome::Write(out) = &obs.outcome else { return Case::inconclusive("outcome kind") };
    st.label(match case.who {
        Who::Case { .. } => "requester:case",
        Who::Pase { fab: 0 } => "requester:pase-fabricless",
        Who::Pase { .. } => "requester:pase-with-fabric",
        Who::Group { .. } => "requester:group",
    });
    let (timed_ok, refusable) = timed_state(timed, *flag, out.timed_status, &obs, &mut st);

    let (mut exp, mut exp_calls) = expect_write(&model, &case.node, items, timed_ok, &mut st);

    if let Some(err) = &out.error {
        let why = ABANDONED.with(|a| a.borrow().clone());
        let sig = match &why {
            Some(e) => format!("write:no-answer(device abandoned the exchange: {e})"),
            None => "write:no-answer".to_string(),
        };
        return Case::fail(sig, format!("the device did not answer the request properly: {err}; device-side error: {why:?}; requester {:?}; request {:?}", case.who, case.req));
    }
    if let Some(s) = out.status {
        // refused as a whole
        if s != 0 && refusable {
            if let Some(c) = obs.calls.first() {
                return Case::fail("write:effect-of-refused-request", format!("StatusResponse {s:#x} but the handler was called: {c:?}; request {:?}", case.req));
            }
            return Case::pass(true).labels(st.labels).label("refused-as-a-whole");
        }
        return Case::fail("write:refused-without-reason", format!("StatusResponse {s:#x} instead of a WriteResponse; requester {:?}; request {:?}", case.who, case.req));
    }
    let got: Vec<(Path, Got)> = out.statuses.iter().map(|s| (s.path, Got::Status(s.status))).collect();
    let classify = |p: &Path, g: &Got| -> &'static str {
        match g {
            Got::Status(0) => "success-reported-for-unpermitted-or-unrequested-element",
            Got::Status(_) if p.is_wildcard() => "status-for-wildcard-path",
            _ => "unexpected-status",
        }
    };
    if let Err(f) = match_all("write", &mut exp, &got, &classify) {
        return fail(f, case);
    }
    if let Err(f) = match_calls("write", &mut exp_calls, &obs.calls, &model) {
        return fail(f, case);
    }
    // the handler's verdict and the reported status agree
    for c in &obs.calls {
        if c.accepted != write_ok_reported(&got, c) {
            return Case::fail("write:status-contradicts-effect", format!("handler call {c:?} vs statuses {:?}", out.statuses));
        }
    }
    if items.len() > 1 {
        st.label("multi-item");
    }
    Case::pass(st.nontrivial() || refusable).labels(st.labels)
}

/// What the statement says about one chunk of a chunked write.
#[derive(Debug, Clone, Copy, PartialEq)]
enum ChunkRule {
    /// no effect at all; a non-success answer or the end of the interaction
    MustRefuse,
    /// served like a single-message write with this "inside a valid timed interaction" state
    MustServe(Expect),
    /// refused without any effect, or served with this timed state
    RefuseOrServe(Expect),
}

fn check_write_chunked(case: &C06Case) -> Case {
    let obs = match run_case(case) {
        Ok(o) => o,
        Err(c) => return c,
    };
    let model = Model::new(&case.node, obs.installed.clone(), &case.who);
    let mut st = Stats::new();
    let Request::WriteChunked { timed, chunks } = &case.req else { return Case::inconclusive("not a chunked write") };
    let Outcome::WriteChunked(out, marks) = &obs.outcome else { return Case::inconclusive("outcome kind") };
    st.label(match case.who {
        Who::Case { .. } => "requester:case",
        Who::Pase { fab: 0 } => "requester:pase-fabricless",
        Who::Pase { .. } => "requester:pase-with-fabric",
        Who::Group { .. } => "requester:group",
    });
    st.label(&format!("chunks:{}", chunks.len()));
    let ctx = |case: &C06Case| format!("requester {:?}; request {:?}", case.who, case.req);
    if let Some(e) = &out.error {
        return Case::fail("write-chunked:timed-request-not-answered", format!("{e}; {}", ctx(case)));
    }
    let has_timed = timed.is_some();
    if has_timed && out.timed_status != Some(0) {
        return Case::fail("write-chunked:timed-request-refused", format!("status {:?}; {}", out.timed_status, ctx(case)));
    }
    let limit = timed.map(|t| t.timeout_ms as u64 * 1000).unwrap_or(0);
    st.label(if has_timed { "timed" } else { "untimed" });
    let mut deviating = false;
    let mut served = 0usize;
    let mut interesting = false;
    let mut ended_at: Option<usize> = None;
    for (i, c) in chunks.iter().enumerate() {
        let Some(o) = out.chunks.get(i) else { break };
        let (from, to) = (if i == 0 { 0 } else { marks.get(i - 1).copied().unwrap_or(0) }, marks.get(i).copied().unwrap_or(obs.calls.len()));
        let calls = &obs.calls[from.min(to)..to];
        let rule = if c.timed_flag != has_timed {
            deviating = true;
            st.label(if i == 0 { "flag-deviates:first-chunk" } else { "flag-deviates:later-chunk" });
            st.label(if c.timed_flag { "flag-deviates:claims-timed" } else { "flag-deviates:denies-timed" });
            ChunkRule::MustRefuse
        } else if !has_timed {
            ChunkRule::MustServe(Expect::Deny)
        } else {
            let sure_valid = o.t_answered.saturating_sub(out.t_timed_sent) <= limit;
            let sure_expired = o.t_sent.saturating_sub(out.t_timed_acked) > limit;
            if o.t_sent.saturating_sub(out.t_timed_acked) == limit {
                st.label("timed:chunk-exactly-at-the-timeout");
            }
            if sure_valid {
                ChunkRule::MustServe(Expect::Allow)
            } else if i == 0 {
                st.label("timed:first-chunk-after-the-window");
                ChunkRule::RefuseOrServe(if sure_expired { Expect::Deny } else { Expect::Either })
            } else {
                // not specified for the chunks after the first
                st.label("timed:later-chunk-after-the-window");
                ChunkRule::RefuseOrServe(Expect::Either)
            }
        };
        let refused = o.status.is_some_and(|s| s != 0) || o.error.is_some();
        if o.status == Some(0) {
            return Case::fail("write-chunked:success-status-instead-of-write-response", format!("chunk {i}; {}", ctx(case)));
        }
        let timed_ok = match rule {
            ChunkRule::MustRefuse => {
                if let Some(call) = calls.first() {
                    return Case::fail(
                        "write-chunked:effect-of-chunk-with-mismatching-timed-flag",
                        format!("chunk {i} has TimedRequest={} but a Timed request {} precede the write; nevertheless the handler was called: {call:?}; answer {o:?}; {}", c.timed_flag, if has_timed { "did" } else { "did not" }, ctx(case)),
                    );
                }
                if o.responded && o.statuses.iter().any(|s| s.status == 0) {
                    return Case::fail("write-chunked:chunk-with-mismatching-timed-flag-served", format!("chunk {i}: {o:?}; {}", ctx(case)));
                }
                None
            }
            ChunkRule::MustServe(t) => {
                if !o.responded {
                    let why = ABANDONED.with(|a| a.borrow().clone());
                    let sig = match (&o.error, &why) {
                        (Some(_), Some(e)) => format!("write-chunked:no-answer(device abandoned the exchange: {e})"),
                        (Some(_), None) => "write-chunked:no-answer".to_string(),
                        _ => "write-chunked:refused-without-reason".to_string(),
                    };
                    return Case::fail(sig, format!("chunk {i} had to be served but was answered with {o:?}; device-side error {why:?}; {}", ctx(case)));
                }
                Some(t)
            }
            ChunkRule::RefuseOrServe(t) => {
                if o.responded {
                    Some(t)
                } else {
                    if i == 0 && o.error.is_some() {
                        return Case::fail("write-chunked:no-answer", format!("chunk 0: {o:?}; {}", ctx(case)));
                    }
                    if let Some(call) = calls.first() {
                        return Case::fail("write-chunked:effect-of-refused-chunk", format!("chunk {i} was refused ({o:?}) but the handler was called: {call:?}; {}", ctx(case)));
                    }
                    None
                }
            }
        };
        if let (Some(timed_ok), true) = (timed_ok, o.responded) {
            // served: exactly as a single-message write
            let mut cst = Stats::new();
            let (mut exp, mut exp_calls) = expect_write(&model, &case.node, &c.items, timed_ok, &mut cst);
            let got: Vec<(Path, Got)> = o.statuses.iter().map(|s| (s.path, Got::Status(s.status))).collect();
            let classify = |p: &Path, g: &Got| -> &'static str {
                match g {
                    Got::Status(0) => "success-reported-for-unpermitted-or-unrequested-element",
                    Got::Status(_) if p.is_wildcard() => "status-for-wildcard-path",
                    _ => "unexpected-status",
                }
            };
            if let Err((sig, d)) = match_all("write-chunked", &mut exp, &got, &classify) {
                return fail((sig, format!("chunk {i} (timed state {timed_ok:?}): {d}")), case);
            }
            if let Err((sig, d)) = match_calls("write-chunked", &mut exp_calls, calls, &model) {
                return fail((sig, format!("chunk {i} (timed state {timed_ok:?}): {d}")), case);
            }
            for call in calls {
                if call.accepted != write_ok_reported(&got, call) {
                    return Case::fail("write-chunked:status-contradicts-effect", format!("chunk {i}: handler call {call:?} vs statuses {:?}", o.statuses));
                }
            }
            served += 1;
            if cst.nontrivial() || cst.labels.iter().any(|l| l == "timed-only-element") {
                interesting = true;
            }
            for l in cst.labels {
                st.label(&l);
            }
        } else if o.responded {
            // a mismatching chunk answered with refusals only: the interaction goes on
        }
        if refused || !o.responded {
            ended_at = Some(i);
            break;
        }
    }
    // nothing happens after the interaction ended (refusal, silence, or last chunk)
    let last_mark = marks.last().copied().unwrap_or(0);
    if obs.calls.len() > last_mark {
        return Case::fail(
            "write-chunked:effect-after-the-interaction-ended",
            format!("handler call(s) after the answer to the last chunk that was sent: {:?}; {}", &obs.calls[last_mark..], ctx(case)),
        );
    }
    if let Some(i) = ended_at {
        if out.chunks.len() > i + 1 {
            return Case::inconclusive("chunks were sent after the interaction ended");
        }
        st.label("ended-early");
    }
    st.label(&format!("served:{served}"));
    Case::pass(served >= 2 && (interesting || deviating)).labels(st.labels)
}

/// Whether a success status exists for the element of a handler call.
fn write_ok_reported(got: &[(Path, Got)], c: &HandlerCall) -> bool {
    let p = Path::concrete(c.endpoint, c.cluster, c.leaf);
    let succ = got.iter().filter(|(q, g)| *q == p && *g == Got::Status(0)).count();
    if c.accepted {
        succ > 0
    } else {
        // a rejected call: there must be a non-success status for that path
        !got.iter().any(|(q, g)| *q == p && matches!(g, Got::Status(s) if *s != 0))
    }
}

fn expect_write(model: &Model<'_>, node: &NodeSpec, items: &[WriteItem], timed_ok: Expect, st: &mut Stats) -> (Vec<Exp>, Vec<ExpCall>) {
    let mut exp: Vec<Exp> = Vec::new();
    let mut exp_calls: Vec<ExpCall> = Vec::new();
    for item in items {
        let p = &item.path;
        let mut elems: Vec<(&EndpointSpec, &ClusterSpec, &AttrSpec)> = Vec::new();
        for e in &node.endpoints {
            for c in &e.clusters {
                for a in &c.attributes {
                    if p.matches(e.id, c.id, a.id) {
                        elems.push((e, c, a));
                    }
                }
            }
        }
        let decide = |e: &EndpointSpec, c: &ClusterSpec, a: &AttrSpec, st: &mut Stats| -> Expect {
            let mut d = model.acl(e, c.id, a.id, a.access, true);
            let acc = Access::from_bits_truncate(a.access);
            if acc.contains(Access::TIMED_ONLY) {
                st.label("timed-only-element");
                d = and(d, timed_ok);
            }
            if acc.contains(Access::FAB_SCOPED) && model.fabless() {
                // the statement names commands only
                d = and(d, Expect::Either);
            }
            d
        };
        if !p.is_wildcard() {
            match elems.first() {
                None => {
                    st.concrete_refused = true;
                    st.label("concrete-absent");
                    exp.push(Exp::new(*p, vec![Want::Refused], true));
                }
                Some((e, c, a)) => {
                    let d = decide(e, c, a, st);
                    let ok = write_accepts(a, item);
                    let mut want = Vec::new();
                    if d != Expect::Deny {
                        want.push(if ok { Want::Success } else { Want::Failed });
                        exp_calls.push(ExpCall { key: CallKey { op: Op::Write, ep: e.id, cl: c.id, leaf: a.id, list_index: item.list_index, data: Some(item.value.clone()) }, required: d == Expect::Allow, hit: false });
                    }
                    if d != Expect::Allow {
                        want.push(Want::Refused);
                    }
                    if d == Expect::Deny {
                        st.concrete_refused = true;
                        st.label("concrete-denied");
                    }
                    if d == Expect::Either {
                        st.label("either");
                    }
                    exp.push(Exp::new(*p, want, true));
                }
            }
        } else {
            // Only the endpoint may be a wildcard in a write path (Matter Core spec); for other
            // wildcards both "refused" and "expanded" are accepted.
            let irregular = p.cluster.is_none() || p.leaf.is_none();
            if irregular {
                st.label("wildcard-cluster-or-attribute");
                exp.push(Exp::new(*p, vec![Want::Refused, Want::Failed], false));
            }
            let (mut some_ok, mut some_not) = (false, false);
            for (e, c, a) in &elems {
                let d = decide(e, c, a, st);
                if d == Expect::Deny {
                    some_not = true;
                    continue;
                }
                some_ok = true;
                let ok = write_accepts(a, item);
                let required = d == Expect::Allow && !irregular;
                exp_calls.push(ExpCall { key: CallKey { op: Op::Write, ep: e.id, cl: c.id, leaf: a.id, list_index: item.list_index, data: Some(item.value.clone()) }, required, hit: false });
                exp.push(Exp::new(Path::concrete(e.id, c.id, a.id), vec![if ok { Want::Success } else { Want::Failed }], required));
            }
            if some_ok && some_not {
                st.mixed_wildcard = true;
                st.label("wildcard-mixed");
            }
        }
    }

    (exp, exp_calls)
}

fn expect_invoke(model: &Model<'_>, node: &NodeSpec, items: &[InvokeItem], timed_ok: Expect, st: &mut Stats) -> (Vec<Exp>, Vec<ExpCall>) {
    let mut exp: Vec<Exp> = Vec::new();
    let mut exp_calls: Vec<ExpCall> = Vec::new();
    for item in items {
        let p = &item.path;
        let mut elems: Vec<(&EndpointSpec, &ClusterSpec, &CmdSpec)> = Vec::new();
        for e in &node.endpoints {
            for c in &e.clusters {
                for k in &c.commands {
                    if p.matches(e.id, c.id, k.id) {
                        elems.push((e, c, k));
                    }
                }
            }
        }
        let decide = |e: &EndpointSpec, c: &ClusterSpec, k: &CmdSpec, st: &mut Stats| -> Expect {
            let mut d = model.acl(e, c.id, k.id, k.access, true);
            let acc = Access::from_bits_truncate(k.access);
            if acc.contains(Access::TIMED_ONLY) {
                st.label("timed-only-element");
                d = and(d, timed_ok);
            }
            if acc.contains(Access::FAB_SCOPED) && model.fabless() {
                st.label("fabric-scoped-command:fabricless-requester");
                d = Expect::Deny;
            }
            d
        };
        let answer = |e: &EndpointSpec, c: &ClusterSpec, k: &CmdSpec| -> (Path, Want) {
            match k.resp {
                Some(r) => (Path::concrete(e.id, c.id, r), Want::Data(Val::Struct(vec![(Tag::Ctx(0), Val::Bytes(item.payload.clone()))]))),
                None => (Path::concrete(e.id, c.id, k.id), Want::Success),
            }
        };
        if !p.is_wildcard() {
            match elems.first() {
                None => {
                    st.concrete_refused = true;
                    st.label("concrete-absent");
                    exp.push(Exp::new(*p, vec![Want::Refused], true));
                }
                Some((e, c, k)) => {
                    let d = decide(e, c, k, st);
                    let (ap, aw) = answer(e, c, k);
                    if d != Expect::Deny {
                        exp_calls.push(ExpCall { key: CallKey { op: Op::Invoke, ep: e.id, cl: c.id, leaf: k.id, list_index: None, data: Some(Value::Scalar(item.payload.clone())) }, required: d == Expect::Allow, hit: false });
                        exp.push(Exp::new(ap, vec![aw], d == Expect::Allow));
                    }
                    if d != Expect::Allow {
                        exp.push(Exp::new(*p, vec![Want::Refused], d == Expect::Deny));
                    }
                    if d == Expect::Deny {
                        st.concrete_refused = true;
                        st.label("concrete-denied");
                    }
                    if d == Expect::Either {
                        st.label("either");
                    }
                }
            }
        } else {
            let irregular = p.cluster.is_none() || p.leaf.is_none();
            if irregular {
                st.label("wildcard-cluster-or-command");
                exp.push(Exp::new(*p, vec![Want::Refused, Want::Failed], false));
            }
            let (mut some_ok, mut some_not) = (false, false);
            for (e, c, k) in &elems {
                let d = decide(e, c, k, st);
                if d == Expect::Deny {
                    some_not = true;
                    continue;
                }
                some_ok = true;
                let required = d == Expect::Allow && !irregular;
                let (ap, aw) = answer(e, c, k);
                exp_calls.push(ExpCall { key: CallKey { op: Op::Invoke, ep: e.id, cl: c.id, leaf: k.id, list_index: None, data: Some(Value::Scalar(item.payload.clone())) }, required, hit: false });
                exp.push(Exp::new(ap, vec![aw], required));
            }
            if some_ok && some_not {
                st.mixed_wildcard = true;
                st.label("wildcard-mixed");
            }
        }
    }

    (exp, exp_calls)
}

/// Group requester: no answers; the handler call log is the only observation.
fn check_group(case: &C06Case) -> Case {
    let obs = match run_case(case) {
        Ok(o) => o,
        Err(c) => return c,
    };
    let model = Model::new(&case.node, obs.installed.clone(), &case.who);
    let mut st = Stats::new();
    st.label("requester:group");
    let mut exp_calls = match &case.req {
        Request::Write { items, .. } => {
            st.label("write");
            expect_write(&model, &case.node, items, Expect::Deny, &mut st).1
        }
        Request::Invoke { items, .. } => {
            st.label("invoke");
            expect_invoke(&model, &case.node, items, Expect::Deny, &mut st).1
        }
        _ => return Case::inconclusive("group read"),
    };
    let err = match &obs.outcome {
        Outcome::Write(w) => w.error.clone(),
        Outcome::Invoke(w) => w.error.clone(),
        _ => None,
    };
    if let Some(e) = err {
        return Case::inconclusive(format!("group request could not be sent: {e}"));
    }
    // several commands in one group invoke: may be refused as a whole (see check_invoke)
    let refusable = matches!(&case.req, Request::Invoke { items, .. } if items.len() > 1);
    if refusable && obs.calls.is_empty() {
        return Case::pass(false).labels(st.labels).label("refused-as-a-whole");
    }
    if let Err(f) = match_calls("group", &mut exp_calls, &obs.calls, &model) {
        return fail(f, case);
    }
    // non-trivial: something was performed and something else that was requested was not
    let acted = !obs.calls.is_empty();
    if acted {
        st.label("acted");
    }
    Case::pass(acted && (st.mixed_wildcard || st.concrete_refused)).labels(st.labels)
}

fn check_invoke(case: &C06Case) -> Case {
    let obs = match run_case(case) {
        Ok(o) => o,
        Err(c) => return c,
    };
    let model = Model::new(&case.node, obs.installed.clone(), &case.who);
    let mut st = Stats::new();
    let Request::Invoke { timed, flag, items } = &case.req else { return Case::inconclusive("not an invoke") };
    let Outcome::Invoke(out) = &obs.outcome else { return Case::inconclusive("outcome kind") };
    st.label(match case.who {
        Who::Case { .. } => "requester:case",
        Who::Pase { fab: 0 } => "requester:pase-fabricless",
        Who::Pase { .. } => "requester:pase-with-fabric",
        Who::Group { .. } => "requester:group",
    });
    let (timed_ok, mut refusable) = timed_state(timed, *flag, out.timed_status, &obs, &mut st);
    // Several commands in one request: the Matter specification wants unique paths and unique
    // command references and lets the device limit their number; the statement is silent.
    if items.len() > 1 {
        st.label("multi-item");
        let dup_path = items.iter().enumerate().any(|(i, a)| items.iter().skip(i + 1).any(|b| a.path == b.path));
        let bad_ref = items.iter().any(|a| a.command_ref.is_none()) || items.iter().enumerate().any(|(i, a)| items.iter().skip(i + 1).any(|b| a.command_ref == b.command_ref));
        if dup_path || bad_ref || items.len() > 1 {
            // (the device may also limit the number of paths per invoke to 1)
            refusable = refusable || dup_path || bad_ref || items.len() > 5;
            if dup_path || bad_ref {
                st.label("multi-item:duplicate-path-or-ref");
            }
        }
    }

    let (mut exp, mut exp_calls) = expect_invoke(&model, &case.node, items, timed_ok, &mut st);

    if let Some(err) = &out.error {
        let why = ABANDONED.with(|a| a.borrow().clone());
        let sig = match &why {
            Some(e) => format!("invoke:no-answer(device abandoned the exchange: {e})"),
            None => "invoke:no-answer".to_string(),
        };
        return Case::fail(sig, format!("the device did not answer the request properly: {err}; device-side error: {why:?}; requester {:?}; request {:?}", case.who, case.req));
    }
    if let Some(s) = out.status {
        if s != 0 && refusable {
            if let Some(c) = obs.calls.first() {
                return Case::fail("invoke:effect-of-refused-request", format!("StatusResponse {s:#x} but the handler was called: {c:?}; request {:?}", case.req));
            }
            return Case::pass(true).labels(st.labels).label("refused-as-a-whole");
        }
        return Case::fail("invoke:refused-without-reason", format!("StatusResponse {s:#x} instead of an InvokeResponse; requester {:?}; request {:?}", case.who, case.req));
    }
    let got: Vec<(Path, Got)> = out
        .results
        .iter()
        .map(|r| match &r.body {
            InvokeBody::Data { value, .. } => (r.path, Got::Data(value.clone())),
            InvokeBody::Status(s) => (r.path, Got::Status(*s)),
        })
        .collect();
    let classify = |p: &Path, g: &Got| -> &'static str {
        match g {
            Got::Status(0) | Got::Data(_) => "response-for-unpermitted-or-unrequested-command",
            Got::Status(_) if p.is_wildcard() => "status-for-wildcard-path",
            _ => "unexpected-status",
        }
    };
    if let Err(f) = match_all("invoke", &mut exp, &got, &classify) {
        return fail(f, case);
    }
    if let Err(f) = match_calls("invoke", &mut exp_calls, &obs.calls, &model) {
        return fail(f, case);
    }
    // command references are echoed
    for r in &out.results {
        if let Some(cr) = r.command_ref {
            if !items.iter().any(|i| i.command_ref == Some(cr)) {
                return Case::fail("invoke:unknown-command-ref", format!("{r:?}"));
            }
        }
    }
    Case::pass(st.nontrivial() || refusable).labels(st.labels)
}

// ---------------------------------------------------------------------------------------------
// Generators
// ---------------------------------------------------------------------------------------------

const EP_POOL: [u16; 4] = [0, 1, 2, 3];
const CL_POOL: [u32; 4] = [0x0006, 0x001F, 0x0028, 0x0300];
const ATTR_POOL: [u32; 7] = [0, 1, 2, 3, 0x4001, 0xFFFC, 0xFFFD];
const CMD_POOL: [u32; 4] = [0, 1, 2, 0x40];
const EV_POOL: [u32; 3] = [0, 1, 2];
const DT_POOL: [u16; 3] = [0x0100, 0x0016, 0x000A];

const V: u16 = 0x01;
const O: u16 = 0x02;
const M: u16 = 0x04;
const A: u16 = 0x08;
const R: u16 = 0x10;
const W: u16 = 0x20;
const FAB_SCOPED: u16 = 0x40;
const FAB_SENSITIVE: u16 = 0x80;
const TIMED_ONLY: u16 = 0x100;

/// Privilege encodings used by the repository for "operate / manage / administer" (upward closed
/// as in `WO`/`WM`/`WA` and single-bit as in `RWVM`).
fn wpriv() -> impl Strategy<Value = u16> {
    prop::sample::select(vec![O | M | A, M | A, A, O, M, O | M | A, A])
}

fn attr_access() -> impl Strategy<Value = u16> {
    (0u8..10, wpriv(), any::<bool>(), prop::bool::weighted(0.2), prop::bool::weighted(0.12), prop::bool::weighted(0.1)).prop_map(|(shape, wp, view, timed, fs, fsens)| {
        let mut a = match shape {
            0..=3 => R | if view { V } else { wp },
            4 => W | wp,
            _ => R | W | wp | if view { V } else { 0 },
        };
        if timed && a & W != 0 {
            a |= TIMED_ONLY;
        }
        if fs {
            a |= FAB_SCOPED;
        }
        if fsens {
            a |= FAB_SENSITIVE;
        }
        a
    })
}

fn cmd_access() -> impl Strategy<Value = u16> {
    (wpriv(), prop::bool::weighted(0.3), prop::bool::weighted(0.3)).prop_map(|(wp, timed, fs)| W | wp | if timed { TIMED_ONLY } else { 0 } | if fs { FAB_SCOPED } else { 0 })
}

fn event_access_bits() -> impl Strategy<Value = u16> {
    (wpriv(), prop::bool::weighted(0.6), prop::bool::weighted(0.3)).prop_map(|(wp, view, fsens)| R | if view { V } else { wp } | if fsens { FAB_SENSITIVE } else { 0 })
}

fn cluster_spec(big: bool) -> impl Strategy<Value = (Vec<Option<(u16, bool, u16, u8)>>, Vec<Option<(u16, bool)>>, Vec<Option<u16>>, u32)> {
    let size = if big {
        prop_oneof![2 => 0u16..24, 3 => 24u16..200, 3 => 200u16..600].boxed()
    } else {
        prop_oneof![10 => 0u16..24, 2 => 24u16..200, 1 => 200u16..600].boxed()
    };
    (
        prop::collection::vec(prop::option::weighted(0.5, (attr_access(), prop::bool::weighted(0.25), size, 0u8..6)), ATTR_POOL.len()),
        prop::collection::vec(prop::option::weighted(0.4, (cmd_access(), any::<bool>())), CMD_POOL.len()),
        prop::collection::vec(prop::option::weighted(0.35, event_access_bits()), EV_POOL.len()),
        // few distinct data versions, so that two clusters of an endpoint often share one
        prop_oneof![3 => 0u32..3, 1 => any::<u32>()],
    )
}

fn node_spec(big: bool) -> impl Strategy<Value = NodeSpec> {
    let cluster = move || cluster_spec(big);
    let endpoint = move || (prop::collection::vec(prop::sample::select(DT_POOL.to_vec()), 0..=2), prop::collection::vec(prop::option::weighted(0.5, cluster()), CL_POOL.len()));
    prop::collection::vec(prop::option::weighted(0.6, endpoint()), EP_POOL.len()).prop_map(|eps| {
        let mut node = NodeSpec::default();
        for (ei, e) in eps.into_iter().enumerate() {
            let Some((dts, cls)) = e else { continue };
            let mut ep = EndpointSpec { id: EP_POOL[ei], device_types: dts, clusters: Vec::new() };
            for (ci, c) in cls.into_iter().enumerate() {
                let Some((attrs, cmds, evs, dataver)) = c else { continue };
                if ep.clusters.len() == 3 {
                    break;
                }
                let mut cl = ClusterSpec { id: CL_POOL[ci], dataver, attributes: Vec::new(), commands: Vec::new(), events: Vec::new() };
                for (ai, a) in attrs.into_iter().enumerate() {
                    if let Some((access, is_list, size, items)) = a {
                        if cl.attributes.len() < 6 {
                            cl.attributes.push(AttrSpec { id: ATTR_POOL[ai], access, is_list, size, items });
                        }
                    }
                }
                if cl.attributes.is_empty() {
                    cl.attributes.push(AttrSpec { id: ATTR_POOL[0], access: R | V, is_list: false, size: 4, items: 0 });
                }
                for (ki, k) in cmds.into_iter().enumerate() {
                    if let Some((access, resp)) = k {
                        if cl.commands.len() < 3 {
                            cl.commands.push(CmdSpec { id: CMD_POOL[ki], access, resp: resp.then_some(CMD_POOL[ki] + 0x80) });
                        }
                    }
                }
                for (vi, v) in evs.into_iter().enumerate() {
                    if let Some(access) = v {
                        if cl.events.len() < 2 {
                            cl.events.push(EventSpec { id: EV_POOL[vi], access });
                        }
                    }
                }
                ep.clusters.push(cl);
            }
            if ep.clusters.is_empty() {
                ep.clusters.push(ClusterSpec { id: CL_POOL[0], dataver: 1, attributes: vec![AttrSpec { id: 0, access: R | V, is_list: false, size: 2, items: 0 }], commands: vec![], events: vec![] });
            }
            node.endpoints.push(ep);
        }
        if node.endpoints.is_empty() {
            node.endpoints.push(EndpointSpec { id: 0, device_types: vec![DT_POOL[0]], clusters: vec![ClusterSpec { id: CL_POOL[0], dataver: 1, attributes: vec![AttrSpec { id: 0, access: R | V, is_list: false, size: 2, items: 0 }], commands: vec![CmdSpec { id: 0, access: W | O | M | A, resp: None }], events: vec![] }] });
        }
        node.normalize();
        node
    })
}

#[derive(Debug, Clone, Copy, PartialEq, Eq)]
enum Leaf {
    Attr,
    Cmd,
    Event,
}

#[derive(Debug, Clone)]
struct RawPath {
    style: u8,
    mask: u8,
    ep: u16,
    cl: u16,
    leaf: u16,
    swap: u8,
    pool: u16,
}

fn raw_path() -> impl Strategy<Value = RawPath> {
    (0u8..100, 1u8..8, any::<u16>(), any::<u16>(), any::<u16>(), 0u8..3, any::<u16>()).prop_map(|(style, mask, ep, cl, leaf, swap, pool)| RawPath { style, mask, ep, cl, leaf, swap, pool })
}

fn leaf_ids(c: &ClusterSpec, kind: Leaf) -> Vec<u32> {
    match kind {
        Leaf::Attr => c.attributes.iter().map(|a| a.id).collect(),
        Leaf::Cmd => c.commands.iter().map(|a| a.id).collect(),
        Leaf::Event => c.events.iter().map(|a| a.id).collect(),
    }
}

fn pool_leaf(kind: Leaf, sel: u16) -> u32 {
    match kind {
        Leaf::Attr => {
            let p = [0u32, 1, 2, 3, 0x4001, 0xFFFC, 0xFFFD, 0x7FFF];
            p[pick(sel, p.len())]
        }
        Leaf::Cmd => {
            let p = [0u32, 1, 2, 0x40, 0x7F];
            p[pick(sel, p.len())]
        }
        Leaf::Event => {
            let p = [0u32, 1, 2, 0x7F];
            p[pick(sel, p.len())]
        }
    }
}

/// Turn selectors into a path over `node`. `effect` = write / invoke (wildcards are mostly
/// endpoint-only there).
fn resolve_path(node: &NodeSpec, kind: Leaf, effect: bool, r: &RawPath) -> Path {
    let e = &node.endpoints[pick(r.ep, node.endpoints.len())];
    // prefer a cluster that has leaves of the wanted kind
    let with: Vec<&ClusterSpec> = e.clusters.iter().filter(|c| !leaf_ids(c, kind).is_empty()).collect();
    let c = if with.is_empty() { &e.clusters[pick(r.cl, e.clusters.len())] } else { with[pick(r.cl, with.len())] };
    let ids = leaf_ids(c, kind);
    let leaf = if ids.is_empty() { pool_leaf(kind, r.pool) } else { ids[pick(r.leaf, ids.len())] };
    let mut p = Path::concrete(e.id, c.id, leaf);
    let swap = |p: &mut Path| match r.swap {
        0 => {
            let pool = [0u16, 1, 2, 3, 0x7FF0];
            p.endpoint = Some(pool[pick(r.pool, pool.len())]);
        }
        1 => {
            let pool = [0x0006u32, 0x001F, 0x0028, 0x0300, 0xFFF1_0001];
            p.cluster = Some(pool[pick(r.pool, pool.len())]);
        }
        _ => p.leaf = Some(pool_leaf(kind, r.pool)),
    };
    if r.style < 40 {
        // concrete, existing
    } else if r.style < 55 {
        swap(&mut p);
    } else {
        let mut mask = r.mask;
        if effect && r.style < 92 {
            mask = 1;
        }
        if r.style >= 96 {
            swap(&mut p);
        }
        if mask & 1 != 0 {
            p.endpoint = None;
        }
        if mask & 2 != 0 {
            p.cluster = None;
        }
        if mask & 4 != 0 {
            p.leaf = None;
        }
        if kind == Leaf::Attr && !effect && p.cluster.is_none() {
            if let Some(l) = p.leaf {
                // wildcard cluster + concrete attribute: global attributes only (mostly)
                if !is_global_attr(l) && r.pool % 8 != 0 {
                    p.leaf = Some(if r.pool % 2 == 0 { 0xFFFC } else { 0xFFFD });
                }
            }
        }
    }
    p
}

fn raw_paths(max: usize) -> impl Strategy<Value = (Vec<RawPath>, Option<(u16, u16)>)> {
    (prop::collection::vec(raw_path(), 1..=max), prop::option::weighted(0.3, (any::<u16>(), any::<u16>())))
}

fn resolve_paths(node: &NodeSpec, kind: Leaf, effect: bool, raw: &(Vec<RawPath>, Option<(u16, u16)>), max: usize) -> Vec<Path> {
    let mut v: Vec<Path> = raw.0.iter().map(|r| resolve_path(node, kind, effect, r)).collect();
    if let Some((from, to)) = raw.1 {
        if v.len() < max {
            let p = v[pick(from, v.len())];
            let at = pick(to, v.len() + 1);
            v.insert(at, p);
        }
    }
    v
}

#[derive(Debug, Clone)]
struct RawWho {
    kind: u8,
    fab_sel: u16,
    entry_sel: u16,
    id: u64,
    cats: Vec<(u16, u16)>,
    k: (u8, u16, i8, u16),
}

fn raw_who() -> impl Strategy<Value = RawWho> {
    (any::<u8>(), any::<u16>(), any::<u16>(), c05::any_id(), prop::collection::vec(c05::cat(), 0..=3), (any::<u8>(), any::<u16>(), -1i8..=1, any::<u16>())).prop_map(|(kind, fab_sel, entry_sel, id, cats, k)| RawWho { kind, fab_sel, entry_sel, id, cats, k })
}

fn resolve_who(world: &c05::World, r: &RawWho) -> Who {
    let present: Vec<usize> = world.fabrics.iter().enumerate().filter(|(_, f)| f.present).map(|(i, _)| i).collect();
    if r.kind < 20 || present.is_empty() {
        return Who::Pase { fab: 0 };
    }
    let fi = present[pick(r.fab_sel, present.len())];
    if r.kind < 28 {
        return Who::Pase { fab: fi as u8 + 1 };
    }
    let mut acc = c05::Acc { mode: Some(c05::Mode::Case), fab: fi as u8 + 1, id: r.id, cats: r.cats.clone() };
    let entries: Vec<&c05::Entry> = world.fabrics[fi].entries.iter().filter(|e| e.mode == c05::Mode::Case).collect();
    if !entries.is_empty() {
        let e = entries[pick(r.entry_sel, entries.len())];
        let mut dummy = c05::Req { endpoint: 0, cluster: 0, leaf: 0, device_types: vec![], write: false, access: 0 };
        let k = c05::Knobs { fab: 255, fab_sel: 0, entry_sel: 0, mode: 255, subj: r.k.0, subj_sel: r.k.1, ver_delta: r.k.2, tgt: 255, tgt_sel: r.k.3 };
        c05::align(&mut acc, &mut dummy, e, &k);
    }
    acc.cats.truncate(3);
    // a CAT with version 0 / id 0 is not a CAT (the session would not carry it)
    Who::Case { fab: acc.fab, id: acc.id, cats: acc.cats }
}

fn raw_timed() -> impl Strategy<Value = Option<(u16, u8, u32)>> {
    prop::option::weighted(
        0.45,
        (prop_oneof![3 => prop::sample::select(vec![0u16, 1, 2, 50, 1000, 5000]), 1 => 0u16..3000], 0u8..7, any::<u32>()),
    )
}

fn resolve_timed(r: &Option<(u16, u8, u32)>) -> Option<Timed> {
    r.map(|(t, kind, rnd)| {
        let limit = t as u64 * 1000;
        let delay_us = match kind {
            0 => 0,
            1 => limit.saturating_sub(1),
            2 => limit,
            3 => limit + 1,
            4 => {
                if limit == 0 {
                    0
                } else {
                    rnd as u64 % (limit + 1)
                }
            }
            5 => limit + 1 + rnd as u64 % 3_000_000,
            _ => limit / 2,
        };
        Timed { timeout_ms: t, delay_us }
    })
}

fn sched() -> impl Strategy<Value = Option<u64>> {
    prop_oneof![1 => Just(None), 3 => any::<u64>().prop_map(Some)]
}

fn bytes(max: usize) -> impl Strategy<Value = Vec<u8>> {
    prop::collection::vec(any::<u8>(), 0..=max)
}

type Common = (NodeSpec, c05::World, RawWho, Option<u64>, u32);

fn common(big: bool) -> impl Strategy<Value = Common> {
    (node_spec(big), c05::world(true, false), raw_who(), sched(), any::<u32>())
}

fn read_case() -> impl Strategy<Value = C06Case> {
    (
        common(false),
        raw_paths(7),
        prop::bool::weighted(0.06),
        prop::option::weighted(0.35, raw_paths(3)),
        prop::collection::vec((any::<u16>(), any::<u16>(), any::<u16>(), 0u8..3, prop::option::weighted(0.5, 1u8..4)), 0..6),
        any::<bool>(),
        prop::collection::vec((any::<u16>(), any::<u16>(), any::<bool>()), 0..3),
        prop::bool::weighted(0.15),
        prop::bool::weighted(0.25),
        prop::option::weighted(0.1, 0u64..6),
    )
        .prop_map(|((node, world, who, sched, seed), attr_raw, omit_attrs, ev_raw, emit_raw, fabric_filtered, dv_raw, use_dv, sub, event_min)| {
            let who = resolve_who(&world, &who);
            let attrs = if omit_attrs { None } else { Some(resolve_paths(&node, Leaf::Attr, false, &attr_raw, 8)) };
            let events = ev_raw.map(|r| resolve_paths(&node, Leaf::Event, false, &r, 4));
            let mut emits = Vec::new();
            let with_events: Vec<(u16, &ClusterSpec)> = node.endpoints.iter().flat_map(|e| e.clusters.iter().filter(|c| !c.events.is_empty()).map(move |c| (e.id, c))).collect();
            if events.is_some() && !with_events.is_empty() {
                for (a, b, _c, prio, fab) in &emit_raw {
                    let (ep, cl) = with_events[pick(*a, with_events.len())];
                    let ev = &cl.events[pick(*b, cl.events.len())];
                    let sensitive = ev.access & FAB_SENSITIVE != 0;
                    emits.push(Emit { ep, cl: cl.id, ev: ev.id, prio: *prio, fab: if sensitive { fab.or(Some(1)) } else { None } });
                }
            }
            let mut dataver_filters = Vec::new();
            if use_dv {
                let all: Vec<(u16, &ClusterSpec)> = node.endpoints.iter().flat_map(|e| e.clusters.iter().map(move |c| (e.id, c))).collect();
                for (a, _b, same) in &dv_raw {
                    let (ep, cl) = all[pick(*a, all.len())];
                    dataver_filters.push((ep, cl.id, if *same { cl.dataver } else { cl.dataver.wrapping_add(1) }));
                }
            }
            let read = ReadReq { attrs, events, fabric_filtered, dataver_filters, event_min };
            let req = if sub && matches!(who, Who::Case { .. }) {
                Request::Subscribe(SubscribeReq { read, keep_subscriptions: true, min_interval_s: 1, max_interval_s: 60 })
            } else {
                Request::Read(read)
            };
            C06Case { node, world, who, emits, req, changes: vec![], sched, seed }
        })
}

fn write_case() -> impl Strategy<Value = C06Case> {
    (
        common(false),
        raw_paths(7),
        raw_vals(),
        raw_timed(),
        0u8..100,
    )
        .prop_map(|((node, world, who, sched, seed), raw, vals, timed, flagsel)| {
            let who = resolve_who(&world, &who);
            let paths = resolve_paths(&node, Leaf::Attr, true, &raw, 8);
            let items = make_write_items(&node, &paths, &vals);
            let timed = resolve_timed(&timed);
            let flag = if flagsel < 88 { timed.is_some() } else { timed.is_none() };
            C06Case { node, world, who, emits: vec![], req: Request::Write { timed, flag, items }, changes: vec![], sched, seed }
        })
}

type RawVals = Vec<(Vec<u8>, Vec<Vec<u8>>, u8)>;

fn raw_vals() -> impl Strategy<Value = RawVals> {
    prop::collection::vec((bytes(24), prop::collection::vec(bytes(8), 0..3), 0u8..12), 8)
}

fn make_write_items(node: &NodeSpec, paths: &[Path], vals: &RawVals) -> Vec<WriteItem> {
    paths
        .iter()
        .enumerate()
        .map(|(i, p)| {
            let (scalar, list, shape) = &vals[i % vals.len()];
            // the kind of the first matching attribute decides the value shape (mostly)
            let is_list = node.endpoints.iter().flat_map(|e| e.clusters.iter().flat_map(move |c| c.attributes.iter().map(move |a| (e.id, c.id, a)))).find(|(e, c, a)| p.matches(*e, *c, a.id)).map(|(_, _, a)| a.is_list).unwrap_or(false);
            let (value, list_index) = match (is_list, *shape) {
                (true, 0..=6) => (Value::List(list.clone()), None),
                (true, 7..=9) => (Value::Scalar(scalar.clone()), Some(None)),
                (true, _) => (Value::Scalar(scalar.clone()), None),
                (false, 0..=10) => (Value::Scalar(scalar.clone()), None),
                (false, _) => (Value::List(list.clone()), None),
            };
            WriteItem { path: *p, list_index, dataver: None, value }
        })
        .collect()
}

/// A WriteRequest in 2-4 chunks: optional Timed request (delay around the timeout as in `write`),
/// per-chunk TimedRequest flags (consistent, or one chunk deviating either way), per-chunk items
/// from the write-item generator, delays between the chunks (none, small, around the end of the
/// timed window, far beyond it).
fn write_chunked_case() -> impl Strategy<Value = C06Case> {
    (
        common(false),
        prop::collection::vec((raw_paths(3), raw_vals()), 2..=4),
        prop::option::weighted(
            0.6,
            (prop_oneof![3 => prop::sample::select(vec![0u16, 1, 2, 50, 1000, 5000]), 1 => 0u16..3000], prop::sample::select(vec![0u8, 0, 0, 6, 6, 4, 1, 2, 3, 5]), any::<u32>()),
        ),
        prop::option::weighted(0.3, any::<u16>()),
        prop::collection::vec((0u8..10, any::<u32>()), 4),
    )
        .prop_map(|((node, world, who, sched, seed), raw_chunks, timed, deviate, delays)| {
            let who = resolve_who(&world, &who);
            let timed = resolve_timed(&timed);
            let limit = timed.map(|t| t.timeout_ms as u64 * 1000).unwrap_or(0);
            let n = raw_chunks.len();
            let deviating = deviate.map(|d| pick(d, n));
            // virtual time since the Timed request was confirmed
            let mut elapsed = timed.map(|t| t.delay_us).unwrap_or(0);
            let chunks = raw_chunks
                .iter()
                .enumerate()
                .map(|(i, (raw, vals))| {
                    let paths = resolve_paths(&node, Leaf::Attr, true, raw, 4);
                    let items = make_write_items(&node, &paths, vals);
                    let (kind, rnd) = delays[i % delays.len()];
                    let delay_us = if i == 0 {
                        0
                    } else {
                        match kind {
                            0..=3 => 0,
                            4 => rnd as u64 % 5000,
                            5 => (limit.saturating_sub(1)).saturating_sub(elapsed),
                            6 => limit.saturating_sub(elapsed),
                            7 => (limit + 1).saturating_sub(elapsed),
                            8 => (limit + 1 + rnd as u64 % 2_000_000).saturating_sub(elapsed),
                            _ => (limit / 2).saturating_sub(elapsed),
                        }
                    };
                    elapsed += delay_us;
                    let timed_flag = timed.is_some() != (deviating == Some(i));
                    WriteChunk { items, timed_flag, delay_us }
                })
                .collect();
            C06Case { node, world, who, emits: vec![], req: Request::WriteChunked { timed, chunks }, changes: vec![], sched, seed }
        })
}

fn invoke_case() -> impl Strategy<Value = C06Case> {
    (
        common(false),
        prop_oneof![6 => raw_paths(1), 2 => raw_paths(3), 1 => raw_paths(6)],
        prop::collection::vec(bytes(20), 7),
        raw_timed(),
        0u8..100,
        0u8..100,
    )
        .prop_map(|((node, world, who, sched, seed), mut raw, vals, timed, flagsel, refsel)| {
            let who = resolve_who(&world, &who);
            // a repeated path makes the whole request invalid (Matter spec): keep that rare
            if refsel % 8 != 0 {
                raw.1 = None;
            }
            let paths = resolve_paths(&node, Leaf::Cmd, true, &raw, 7);
            let n = paths.len();
            let items = paths
                .iter()
                .enumerate()
                .map(|(i, p)| InvokeItem {
                    path: *p,
                    payload: vals[i % vals.len()].clone(),
                    command_ref: if n == 1 {
                        (refsel < 30).then_some(7)
                    } else if refsel < 85 {
                        Some(i as u16 + 1)
                    } else if refsel < 93 {
                        Some(1)
                    } else {
                        None
                    },
                })
                .collect();
            let timed = resolve_timed(&timed);
            let flag = if flagsel < 88 { timed.is_some() } else { timed.is_none() };
            C06Case { node, world, who, emits: vec![], req: Request::Invoke { timed, flag, items }, changes: vec![], sched, seed }
        })
}

fn dynamic_case() -> impl Strategy<Value = C06Case> {
    (common(true), raw_paths(3), prop::collection::vec((0u8..4, prop::collection::vec(any::<u16>(), 0..3)), 1..4), any::<bool>()).prop_map(|((node, world, who, sched, seed), mut raw, changes, ff)| {
        let who = resolve_who(&world, &who);
        // mostly wildcards
        for r in raw.0.iter_mut() {
            if r.style < 55 && r.ep % 4 != 0 {
                r.style = 60;
            }
            if r.ep % 3 == 0 {
                r.mask = 7;
            }
        }
        let attrs = resolve_paths(&node, Leaf::Attr, false, &raw, 4);
        let changes = changes
            .into_iter()
            .map(|(at, eps)| {
                let mut h: Vec<u16> = eps.into_iter().map(|s| node.endpoints[pick(s, node.endpoints.len())].id).collect();
                h.sort();
                h.dedup();
                (at, h)
            })
            .collect();
        let read = ReadReq { attrs: Some(attrs), events: None, fabric_filtered: ff, dataver_filters: vec![], event_min: None };
        C06Case { node, world, who, emits: vec![], req: Request::Read(read), changes, sched, seed }
    })
}

/// A group requester (the device-side session is a group session): writes / invokes, mostly with
/// a wildcard endpoint, under an access-control configuration with group entries and group
/// membership tables.
fn group_case() -> impl Strategy<Value = C06Case> {
    (
        node_spec(false),
        c05::world(true, true),
        (any::<u16>(), any::<u16>(), any::<u16>(), 0u8..10),
        raw_paths(4),
        prop::collection::vec((bytes(24), prop::collection::vec(bytes(8), 0..3), 0u8..12), 8),
        any::<bool>(),
        sched(),
        any::<u32>(),
    )
        .prop_map(|(node, mut world, (fab_sel, grp_sel, ent_sel, knob), mut raw, vals, is_write, sched, seed)| {
            // the requester: a group of a present fabric, preferably one that has members and an
            // ACL entry naming it
            let present: Vec<usize> = world.fabrics.iter().enumerate().filter(|(_, f)| f.present).map(|(i, _)| i).collect();
            let fi = if present.is_empty() {
                world.fabrics[0].present = true;
                0
            } else {
                present[pick(fab_sel, present.len())]
            };
            let f = &mut world.fabrics[fi];
            let group = if f.groups.is_empty() { c05::GROUP_IDS[pick(grp_sel, 3)] } else { f.groups[pick(grp_sel, f.groups.len())].id };
            // mostly make one group-mode entry name this group (so that something is granted)
            let group_entries: Vec<usize> = f.entries.iter().enumerate().filter(|(_, e)| e.mode == c05::Mode::Group).map(|(i, _)| i).collect();
            if knob < 7 {
                if let Some(&ei) = group_entries.get(pick(ent_sel, group_entries.len().max(1))) {
                    if let Some(list) = f.entries[ei].subjects.as_mut().filter(|l| !l.is_empty()) {
                        let at = pick(ent_sel.rotate_left(3), list.len());
                        list[at] = c05::Subj::Id(group as u64);
                    }
                } else if f.entries.len() < 4 {
                    f.entries.push(c05::Entry { privilege: if knob < 3 { c05::Priv::Manage } else { c05::Priv::Operate }, mode: c05::Mode::Group, subjects: Some(vec![c05::Subj::Id(group as u64)]), targets: None });
                }
            }
            if knob < 8 {
                let member = node.endpoints[pick(ent_sel.rotate_left(7), node.endpoints.len())].id;
                match f.groups.iter_mut().find(|g| g.id == group) {
                    Some(g) => {
                        if !g.endpoints.contains(&member) && g.endpoints.len() < 3 {
                            g.endpoints.push(member);
                            g.endpoints.sort();
                        }
                    }
                    None => f.groups.push(c05::GroupSpec { id: group, endpoints: vec![member], aux: false }),
                }
            }
            let who = Who::Group { fab: fi as u8 + 1, group };
            for r in raw.0.iter_mut() {
                if r.style < 55 && r.leaf % 3 != 0 {
                    r.style = 60; // wildcard endpoint
                }
            }
            let req = if is_write {
                let paths = resolve_paths(&node, Leaf::Attr, true, &raw, 5);
                let items = paths
                    .iter()
                    .enumerate()
                    .map(|(i, p)| {
                        let (scalar, list, _) = &vals[i % vals.len()];
                        let is_list = node.endpoints.iter().flat_map(|e| e.clusters.iter().flat_map(move |c| c.attributes.iter().map(move |a| (e.id, c.id, a)))).find(|(e, c, a)| p.matches(*e, *c, a.id)).map(|(_, _, a)| a.is_list).unwrap_or(false);
                        WriteItem { path: *p, list_index: None, dataver: None, value: if is_list { Value::List(list.clone()) } else { Value::Scalar(scalar.clone()) } }
                    })
                    .collect();
                Request::Write { timed: None, flag: false, items }
            } else {
                raw.0.truncate(1);
                raw.1 = None;
                let paths = resolve_paths(&node, Leaf::Cmd, true, &raw, 1);
                let items = paths.iter().enumerate().map(|(i, p)| InvokeItem { path: *p, payload: vals[i % vals.len()].0.clone(), command_ref: None }).collect();
                Request::Invoke { timed: None, flag: false, items }
            };
            C06Case { node, world, who, emits: vec![], req, changes: vec![], sched, seed }
        })
}

/// Two fabrics, an administrator of fabric 1 or 2 (or a commissioner), fabric-sensitive events
/// emitted under both fabrics, wildcard / concrete event reads with and without fabric filtering.
fn fabric_sensitive_case() -> impl Strategy<Value = C06Case> {
    (
        node_spec(false),
        prop::collection::vec((any::<u16>(), any::<u16>(), 0u8..3, 1u8..3), 1..6),
        1u8..3,
        any::<bool>(),
        raw_paths(2),
        sched(),
        any::<u32>(),
    )
        .prop_map(|(mut node, emit_raw, fab, fabric_filtered, ev_raw, sched, seed)| {
            // make sure there is a fabric-sensitive event
            node.endpoints[0].clusters[0].events.insert(0, EventSpec { id: 5, access: R | V | FAB_SENSITIVE });
            node.normalize();
            let admin = |_: u8| c05::FabricSpec { present: true, entries: vec![c05::Entry { privilege: c05::Priv::Administer, mode: c05::Mode::Case, subjects: None, targets: None }], groups: vec![] };
            let world = c05::World { fabrics: vec![admin(1), admin(2), c05::FabricSpec { present: false, entries: vec![], groups: vec![] }] };
            let who = Who::Case { fab, id: 112233, cats: vec![] };
            let with_events: Vec<(u16, &ClusterSpec)> = node.endpoints.iter().flat_map(|e| e.clusters.iter().filter(|c| !c.events.is_empty()).map(move |c| (e.id, c))).collect();
            let mut emits = Vec::new();
            for (a, b, prio, f) in &emit_raw {
                let (ep, cl) = with_events[pick(*a, with_events.len())];
                let ev = &cl.events[pick(*b, cl.events.len())];
                emits.push(Emit { ep, cl: cl.id, ev: ev.id, prio: *prio, fab: (ev.access & FAB_SENSITIVE != 0).then_some(*f) });
            }
            let mut events = resolve_paths(&node, Leaf::Event, false, &ev_raw, 3);
            events.push(Path::new(None, None, None));
            let read = ReadReq { attrs: None, events: Some(events), fabric_filtered, dataver_filters: vec![], event_min: None };
            C06Case { node, world, who, emits, req: Request::Read(read), changes: vec![], sched, seed }
        })
}

thread_local! {
    /// last "exchange abandoned" error of the device's responder in this thread (= case)
    static ABANDONED: RefCell<Option<String>> = const { RefCell::new(None) };
}

static VERBOSE: std::sync::atomic::AtomicBool = std::sync::atomic::AtomicBool::new(false);

struct StderrLog;

impl log::Log for StderrLog {
    fn enabled(&self, _: &log::Metadata) -> bool {
        true
    }
    fn log(&self, r: &log::Record) {
        if r.level() == log::Level::Error && r.target() == "rs_matter::respond" {
            let msg = format!("{}", r.args());
            if let Some(i) = msg.find("Abandoned because of error ") {
                ABANDONED.with(|a| *a.borrow_mut() = Some(msg[i + 27..].trim().to_string()));
            }
        }
        if !VERBOSE.load(std::sync::atomic::Ordering::Relaxed) {
            return;
        }
        eprintln!("[{} {} t={}] {}", r.level(), r.target(), clock::now().saturating_sub(1_000_000_000), r.args());
    }
    fn flush(&self) {}
}

/// Real AccessControl / OperationalCredentials clusters (administrative device, two fabrics): an
/// administrator of fabric 1 reads the ACL - fabric-filtered or not, alone and
/// behind filler reports that make the responder serve it element by element. An entry of the
/// other fabric discloses nothing but its fabric index (the fabric-sensitive fields of a struct
/// are withheld from other fabrics), an entry of the own fabric is served in full, and a
/// fabric-filtered read carries no entry of the other fabric at all.
fn check_real_fabric_sensitive(case: &c14::real::RealCase) -> Case {
    let mut case = case.clone();
    // AccessControl::ACL only: the fields of AccessControlEntryStruct are fabric-sensitive. (The
    // NOCs list is not a subject here: rs-matter follows the revised NOCStruct, whose noc / icac
    // fields are no longer fabric-sensitive, and documents that at the handler.)
    case.target = 0;
    let o = match c14::real::run_real(&case) {
        Ok(o) => o,
        Err(c) => return c,
    };
    let what = format!("{:#x}/{:#x} (fabric-filtered: {}, {} filler reports, {} appended element by element)", o.target.1, o.target.2, case.fabric_filtered, case.fillers, o.appended);
    let mut own = 0;
    let mut foreign = 0;
    for (src, elems) in [("read alone", &o.reference), ("read behind the fillers", &o.elems)] {
        for e in elems.iter() {
            let is_own = e.contains("(Ctx(254), U(1))");
            if is_own {
                own += 1;
                if !e.contains("(Ctx(1), ") {
                    return Case::fail("real:own-fabric-entry-incomplete", format!("{what}, {src}: an entry of the reader's fabric lacks its first field: {e}"));
                }
            } else {
                foreign += 1;
                if case.fabric_filtered {
                    return Case::fail("real:fabric-filtered-read-lists-foreign-entry", format!("{what}, {src}: {e}"));
                }
                if e != "Struct([(Ctx(254), U(2))])" {
                    return Case::fail("real:fabric-sensitive-fields-disclosed", format!("{what}, {src}: an entry of fabric 2 was served to an administrator of fabric 1 as {e}"));
                }
            }
        }
    }
    if own == 0 {
        return Case::fail("real:own-fabric-entry-missing", format!("{what}: no entry of the reader's fabric in the list"));
    }
    Case::pass(o.appended > 0 && foreign > 0)
        .label(if o.appended > 0 { "served-element-by-element" } else { "served-whole" })
        .label(if case.fabric_filtered { "fabric-filtered" } else { "not-fabric-filtered" })
}

fn main() {
    let _ = log::set_logger(&StderrLog);
    if std::env::var("VH_LOG").is_ok() {
        VERBOSE.store(true, std::sync::atomic::Ordering::Relaxed);
        log::set_max_level(log::LevelFilter::Debug);
    } else {
        // only the responder's "exchange abandoned" errors are of interest
        log::set_max_level(log::LevelFilter::Error);
    }
    let mut run = Run::new(
        "C06",
        "exploration",
        "a real InteractionModel + default responder serves a generated synthetic node (1-4 endpoints, 1-3 clusters each, 1-6 attributes incl. lists and global ids, 0-3 commands, 0-2 events, generated legal Access declarations incl. TIMED_ONLY / FAB_SCOPED / FAB_SENSITIVE) under a generated access-control configuration (C05 generator, 3 fabric slots) to a planted CASE (node id, CATs aligned with an entry) or PASE (with / without fabric) requester sending a hand-encoded Read / Subscribe / Write / Invoke with 1-8 concrete / wildcard / non-existent / repeated paths, optional data-version filters, optional Timed request with a virtual delay around the timeout, generated poll order. Non-trivial: the request contains a wildcard that expands to at least one permitted and at least one non-permitted element, or a concrete path that is denied or absent (or, for write / invoke, a timed mismatch / expiry; for dynamic-node: the answer had more than one chunk and the composition changed); distinct = distinct serialized case",
    );
    run.assume("the reference ACL decision of c05.rs (checked against AccessReq::allow by C05) is the meaning of 'permitted for the requester'; where it says 'either' (ProxyView, ambiguous declarations) both outcomes are accepted");
    run.assume("status codes are compared by class: success / member of the access-denied-or-unsupported-path family {UNSUPPORTED_ACCESS, _ENDPOINT, _CLUSTER, _ATTRIBUTE, _COMMAND, _EVENT, _READ, _WRITE, _NODE, NEEDS_TIMED_INTERACTION} / other failure (only when the synthetic handler itself rejects the value)");
    run.assume("the statement is silent on (accepted either way): data-version filters that match; wildcard cluster with a concrete non-global attribute; wildcard cluster / leaf in write and invoke paths; invoke requests with several commands that repeat a path or a command reference or exceed 5 commands; the rest of a request whose timed flag and Timed request disagree or whose timeout expired (refused as a whole, without any effect, or processed as untimed); attributes marked FAB_SCOPED written by a fabric-less requester; a concrete event path whose event id does not exist on an existing cluster; a subscription containing a path that is absent / denied / matches nothing (refused as a whole or answered with statuses)");
    run.assume("write-chunked (2-4 WriteRequest chunks with MoreChunkedMessages on one exchange, each answered by a WriteResponse): a timed-only element is written only if a Timed request preceded the write and the chunk carrying it has TimedRequest=true; a chunk whose TimedRequest flag disagrees with whether a Timed request preceded has no effect at all and gets a non-success answer (or none); every other chunk is judged exactly like a single-message write, with its own slice of the handler log; a chunk after the FIRST that arrives after the timed window ended may be refused (no effect) or served (timed-only elements then either way), the first chunk after the window is judged as in `write`; no chunk is sent and nothing may happen after a chunk was not answered by a WriteResponse");
    run.assume("a Timed interaction is valid iff the action is processed no later than timeout ms after the Timed request (d <= T acts): measured on the controller in virtual time with zero network latency");
    run.assume("group requester: a planted session pair whose device side has SessionMode::Group (the device then treats the request as group-cast: no answers); the request is sent unreliably and only the handler call log is compared; group membership tables are installed with the C05 installer");
    run.assume("an event is fabric-sensitive iff its declaration has FAB_SENSITIVE and its payload carries a FabricIndex field (context tag 254); such an event of another fabric must never be reported (with or without fabric filtering), in every sub-check");
    run.assume("sessions, fabrics and ACL entries are planted directly (ReservedSession, Fabrics::add_with_post_init, Fabric::acl_add); ACL entries do not change inside a request; the cluster feature map is 0 (no auxiliary ACLs)");
    let scale = |q: u64, t: u64| run.cases(q, t);
    let n_wchunk = scale(40_000, 2_000_000);
    let (n_read, n_write, n_invoke, n_dyn, n_group, n_fs) = (scale(100_000, 4_000_000), scale(50_000, 2_500_000), scale(50_000, 2_500_000), scale(25_000, 1_000_000), scale(25_000, 1_000_000), scale(10_000, 300_000));
    run.prop("read", n_read, read_case, |c| check_read(c, false));
    run.prop("write", n_write, write_case, check_write);
    run.prop("write-chunked", n_wchunk, write_chunked_case, check_write_chunked);
    run.prop("invoke", n_invoke, invoke_case, check_invoke);
    run.prop("dynamic-node", n_dyn, dynamic_case, |c| check_read(c, false));
    run.prop("group", n_group, group_case, check_group);
    run.prop("fabric-sensitive", n_fs, fabric_sensitive_case, |c| check_read(c, true));
    let n_real = run.cases(5_000, 100_000);
    run.prop("real-fabric-sensitive", n_real, c14::real::real_case, check_real_fabric_sensitive);
    run.finish();
}
