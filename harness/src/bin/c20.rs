//! C20 — Unfinished or hostile handshakes cannot leak or exhaust node resources for good.
//!
//! Sub-check `handshake-churn`: a device (SecureChannel responder, one fabric, open window, one
//! established session kept in use by an open exchange) receives a generated sequence of
//! session-establishment attempts from several nodes: complete PASE/CASE, wrong passcode,
//! abandoned after message k (initiator cancels), vanished after message k (initiator goes
//! silent), garbage in message k, concurrent starts; device handler tasks are cancelled at
//! generated instants. After traffic stops the clock is advanced past every timeout and the
//! session/exchange tables of the device (and of the initiators) are inspected, followed by a
//! probe handshake from a fresh node.
//!
//! Sub-check `resolve-rendezvous`: `Exchange::initiate` futures waiting on the single-slot mDNS
//! resolve rendezvous are dropped in the Requested / InFlight state; a later resolve must be
//! served.

use std::cell::{Cell, RefCell};
use std::collections::HashMap;
use std::rc::Rc;

use proptest::prelude::*;
use serde::{Deserialize, Serialize};

use embassy_time::{Duration, Timer};

use rs_matter::respond::{ExchangeHandler, Responder};
use rs_matter::sc::case::CaseInitiator;
use rs_matter::sc::pase::PaseInitiator;
use rs_matter::sc::{OpCode, SecureChannel, PROTO_ID_SECURE_CHANNEL};
use rs_matter::transport::exchange::{Exchange, MessageMeta};
use rs_matter::transport::network::mdns::{DottedName, MdnsRemoteService};
use rs_matter::transport::network::{Address, IpAddr, MatterRemoteService, NoNetwork, SocketAddr};
use rs_matter::transport::session::SessionMode;
use rs_matter::Matter;

use vh::sim::fabric::{install, new_member, Ca};
use vh::sim::mutate::{self, MutKind};
use vh::sim::net::{node_addr, Actions, Net, Sent};
use vh::sim::node::{mk_crypto, new_matter, plant_pair, sessions, SessKind};
use vh::sim::{clock, Exec, Sched, Stop, MS, SEC};
use vh::{Case, Run};

const N_INIT: usize = 4;
const APP_PROTO: u16 = 0x00F7;

#[derive(Debug, Clone, Serialize, Deserialize)]
enum Kind {
    PaseOk,
    PaseWrong,
    CaseOk,
    /// the initiator application cancels after its k-th handshake message was sent
    PaseAbandon(u8),
    CaseAbandon(u8),
    /// the initiator goes silent after its k-th handshake message
    PaseVanish(u8),
    CaseVanish(u8),
    /// a bit of the k-th initiator message is flipped on the wire (every transmission)
    PaseGarbage(u8, u16),
    CaseGarbage(u8, u16),
}

#[derive(Debug, Clone, Serialize, Deserialize)]
struct Attempt {
    node: u8,
    kind: Kind,
    /// start that many ms after the previous attempt started (0 = concurrently)
    gap_ms: u32,
}

#[derive(Debug, Clone, Serialize, Deserialize)]
struct ChurnCase {
    attempts: Vec<Attempt>,
    /// cancel (drop) one device handler task that many ms after attempt #i started
    cancels: Vec<(u8, u32)>,
    sched: Option<u64>,
    seed: u32,
    /// a cancellation drops ALL device handler tasks at once (e.g. the application's select over
    /// them is dropped), not just one of them
    #[serde(default)]
    cancel_all: bool,
}

fn kind() -> impl Strategy<Value = Kind> {
    prop_oneof![
        3 => Just(Kind::PaseOk),
        2 => Just(Kind::PaseWrong),
        3 => Just(Kind::CaseOk),
        2 => (1u8..4).prop_map(Kind::PaseAbandon),
        2 => (1u8..3).prop_map(Kind::CaseAbandon),
        2 => (1u8..4).prop_map(Kind::PaseVanish),
        2 => (1u8..3).prop_map(Kind::CaseVanish),
        1 => (1u8..4, any::<u16>()).prop_map(|(k, b)| Kind::PaseGarbage(k, b)),
        1 => (1u8..3, any::<u16>()).prop_map(|(k, b)| Kind::CaseGarbage(k, b)),
    ]
}

fn churn_strategy() -> impl Strategy<Value = ChurnCase> {
    (
        prop::collection::vec(
            (
                0u8..N_INIT as u8,
                kind(),
                prop_oneof![2 => Just(0u32), 3 => 1u32..400, 3 => 400u32..12_000],
            )
                .prop_map(|(node, kind, gap_ms)| Attempt { node, kind, gap_ms }),
            1..28,
        ),
        prop::collection::vec((0u8..28, 0u32..3_000), 0..3),
        prop_oneof![1 => Just(None), 3 => any::<u64>().prop_map(Some)],
        any::<u32>(),
        any::<bool>(),
    )
        .prop_map(|(attempts, cancels, sched, seed, cancel_all)| ChurnCase {
            attempts,
            cancels,
            sched,
            seed,
            cancel_all,
        })
}

/// Device-side application handler for the "session in use" exchange: receives the first
/// message and then keeps the exchange open until told to finish.
struct HoldHandler<'a> {
    release: &'a Cell<bool>,
    held: &'a Cell<bool>,
}

impl ExchangeHandler for HoldHandler<'_> {
    async fn handle(&self, mut exchange: Exchange<'_>) -> Result<(), rs_matter::error::Error> {
        {
            let _ = exchange.recv().await?;
        }
        exchange.acknowledge().await?;
        self.held.set(true);
        while !self.release.get() {
            Timer::after(Duration::from_millis(500)).await;
        }
        Ok(())
    }
}

#[derive(Default)]
struct AdvState {
    /// per initiator node: number of SC handshake messages (first transmissions) seen in the
    /// current attempt
    sent_msgs: [u8; N_INIT],
    last_ctr: [Option<u32>; N_INIT],
    /// nodes whose traffic is currently dropped (vanished)
    muted: [bool; N_INIT + 2],
    /// per node: vanish after that many messages
    vanish_after: [Option<u8>; N_INIT],
    /// per node: flip bit in message k
    garbage: [Option<(u8, u16)>; N_INIT],
}

#[allow(clippy::too_many_arguments)]
fn spawn_attempt<'a, C: rs_matter::crypto::Crypto>(
    ex: &mut Exec<'a>,
    m: &'a Matter<'static>,
    c: &'a C,
    pase: bool,
    passcode: u32,
    fab_idx: Option<core::num::NonZeroU8>,
    dev_node: u64,
    done: &'a RefCell<HashMap<usize, bool>>,
    idx: usize,
) -> usize {
    ex.spawn(&format!("attempt{idx}"), async move {
        let r = async {
            let exch = Exchange::initiate_plaintext(m, c, node_addr(0)).await?;
            if pase {
                PaseInitiator::perform(exch, c, passcode).await
            } else {
                CaseInitiator::perform(exch, c, fab_idx.unwrap(), dev_node).await
            }
        }
        .await;
        done.borrow_mut().insert(idx, r.is_ok());
    })
}

fn table_report(m: &Matter<'_>) -> Vec<String> {
    sessions(m)
        .iter()
        .map(|s| {
            format!(
                "[id={} sid={} {:?} reserved={} expired={} exch={:?}]",
                s.id,
                s.local_sess_id,
                s.mode,
                s.reserved,
                s.expired,
                s.exchanges.iter().flatten().map(|e| (e.exch_id, e.initiator, e.state)).collect::<Vec<_>>()
            )
        })
        .collect()
}

fn check_churn(case: &ChurnCase) -> Case {
    vh::sim::reset_universe();
    // nodes: 0 device, 1..=4 initiators, 5 in-use peer, 6 probe
    let net = Net::new(N_INIT + 3);
    let in_use_node = N_INIT + 1;
    let probe_node = N_INIT + 2;
    let cd = mk_crypto(case.seed);
    let cgen = mk_crypto(case.seed ^ 0x5eed);
    let device = new_matter(5540);
    let inits: Vec<Matter<'static>> = (0..N_INIT).map(|i| new_matter(5541 + i as u16)).collect();
    let cis: Vec<_> = (0..N_INIT).map(|i| mk_crypto(case.seed.wrapping_add(77 * (i as u32 + 1)))).collect();
    let user = new_matter(5590);
    let cu = mk_crypto(case.seed ^ 0x1234);
    let probe = new_matter(5591);
    let cp = mk_crypto(case.seed ^ 0x4321);

    // one fabric shared by the device and every initiator (and the probe)
    let ca = match Ca::new(&cgen, 0x77, false, 7) {
        Ok(c) => c,
        Err(e) => return Case::inconclusive(format!("CA: {e:?}")),
    };
    const DEV_NODE: u64 = 0x2000;
    let setup: Result<Vec<core::num::NonZeroU8>, rs_matter::error::Error> = (|| {
        let dm = new_member(&cgen, &ca, DEV_NODE, &[])?;
        install(&device, &cd, &ca, &dm, 0x1000)?;
        let mut v = Vec::new();
        for i in 0..N_INIT {
            let m = new_member(&cgen, &ca, 0x1000 + i as u64, &[])?;
            v.push(install(&inits[i], &cis[i], &ca, &m, 0x1000)?);
        }
        let m = new_member(&cgen, &ca, 0x1900, &[])?;
        v.push(install(&probe, &cp, &ca, &m, 0x1000)?);
        Ok(v)
    })();
    let fab_idxs = match setup {
        Ok(v) => v,
        Err(e) => return Case::inconclusive(format!("fabric setup: {e:?}")),
    };
    // the session that stays in use
    let planted = match plant_pair(&user, &cu, node_addr(in_use_node), &device, &cd, node_addr(0), SessKind::Case, 0x0A0A, 0x0B0B, 11) {
        Ok(p) => p,
        Err(e) => return Case::inconclusive(format!("plant: {e:?}")),
    };

    let adv = Rc::new(RefCell::new(AdvState::default()));
    {
        let adv = adv.clone();
        net.set_adversary(move |s: &Sent| -> Actions {
            let mut a = adv.borrow_mut();
            if s.src < a.muted.len() && a.muted[s.src] {
                return vec![];
            }
            if let Some(d) = s.dst {
                if d < a.muted.len() && a.muted[d] {
                    return vec![];
                }
            }
            let mut bytes = s.bytes.clone();
            if (1..=N_INIT).contains(&s.src) {
                let i = s.src - 1;
                if let Some((w, _)) = mutate::payload_offset(&s.bytes) {
                    let handshake = w.proto_id == PROTO_ID_SECURE_CHANNEL
                        && w.opcode != OpCode::MRPStandAloneAck as u8
                        && w.opcode != OpCode::StatusReport as u8;
                    if handshake {
                        if a.last_ctr[i] != Some(w.ctr) {
                            a.last_ctr[i] = Some(w.ctr);
                            a.sent_msgs[i] += 1;
                        }
                        let k = a.sent_msgs[i];
                        if let Some((gk, bit)) = a.garbage[i] {
                            if gk == k {
                                let (nb, _) = mutate::apply(&s.bytes, &MutKind::FlipPayloadBit { byte: bit, bit: (bit & 7) as u8 }, None, true);
                                bytes = nb;
                            }
                        }
                        if let Some(vk) = a.vanish_after[i] {
                            if k > vk {
                                a.muted[s.src] = true;
                                return vec![];
                            }
                        }
                    }
                }
            }
            vec![(0, bytes)]
        });
    }

    let done: RefCell<HashMap<usize, bool>> = RefCell::new(HashMap::new());
    let release = Cell::new(false);
    let held = Cell::new(false);
    let user_done = Cell::new(false);
    let probe_result: RefCell<Vec<bool>> = RefCell::new(Vec::new());
    let mut verdict: Option<Case> = None;
    let mut labels: Vec<String> = Vec::new();
    let mut peak_sessions = 0usize;
    let mut abandoned_steps: std::collections::BTreeSet<String> = Default::default();
    {
        let sc = SecureChannel::new(&cd, &());
        let responder = Responder::new("device", sc, &device, 0);
        // the peer of the in-use session answers with a handler that keeps the exchange open
        let hold = HoldHandler { release: &release, held: &held };
        let user_responder = Responder::new("user", hold, &user, 0);
        let mut ex = Exec::new(match case.sched {
            None => Sched::Fifo,
            Some(s) => Sched::Seeded(s),
        });
        ex.add_time_source(&net);
        ex.spawn("dev.run", async {
            let _ = device.run(&cd, net.end(0), net.end(0), NoNetwork).await;
        });
        // four independent handler tasks so that single ones can be cancelled
        let mut handlers: Vec<usize> = Vec::new();
        for h in 0..4 {
            let r = &responder;
            handlers.push(ex.spawn(&format!("dev.h{h}"), async move {
                let _ = r.handle(h).await;
            }));
        }
        for i in 0..N_INIT {
            let (m, c, e) = (&inits[i], &cis[i], net.end(1 + i));
            ex.spawn(&format!("init{i}.run"), async move {
                let _ = m.run(c, e, e, NoNetwork).await;
            });
        }
        {
            let (m, c, e) = (&user, &cu, net.end(in_use_node));
            ex.spawn("user.run", async move {
                let _ = m.run(c, e, e, NoNetwork).await;
            });
            let ur = &user_responder;
            ex.spawn("user.resp", async move {
                let _ = ur.run::<2>().await;
            });
            // the device's own application keeps an (initiator) exchange open on that session
            let (rel, ud) = (&release, &user_done);
            let (dm, dc) = (&device, &cd);
            let sid = planted.b_internal;
            ex.spawn("dev.app", async move {
                if let Ok(mut exch) = Exchange::initiate_for_session(dm, dc, sid) {
                    let _ = exch.send(MessageMeta::new(APP_PROTO, 1, true), &[1, 2, 3]).await;
                    while !rel.get() {
                        Timer::after(Duration::from_millis(500)).await;
                    }
                    drop(exch);
                }
                ud.set(true);
            });
        }
        {
            let (m, c, e) = (&probe, &cp, net.end(probe_node));
            ex.spawn("probe.run", async move {
                let _ = m.run(c, e, e, NoNetwork).await;
            });
        }
        if device.open_basic_comm_window(900, &cd, &()).is_err() {
            return Case::inconclusive("cannot open window");
        }
        // let the in-use exchange get established
        let dl = clock::now() + 5 * SEC;
        ex.run_until(dl, || held.get());
        if !held.get() {
            return Case::inconclusive("the in-use exchange could not be set up");
        }

        // ------------------------------------------------------------ the churn
        let mut t = clock::now();
        let mut starts: Vec<(u64, usize)> = Vec::new();
        for (i, a) in case.attempts.iter().enumerate() {
            t += a.gap_ms as u64 * MS;
            starts.push((t, i));
        }
        let mut cancels: Vec<(u64, usize)> = case
            .cancels
            .iter()
            .filter_map(|(ai, d)| starts.get(*ai as usize).map(|(t, _)| (*t + *d as u64 * MS, 0usize)))
            .collect();
        cancels.sort();
        let mut next_start = 0usize;
        let mut next_cancel = 0usize;
        // attempt idx -> (task, node, abandon_after)
        let mut running: HashMap<usize, (usize, usize, Option<u8>)> = HashMap::new();
        let mut node_busy_until: [u64; N_INIT] = [0; N_INIT];
        let end_of_churn = starts.last().map(|s| s.0).unwrap_or(t) + 40 * SEC;
        loop {
            let mut deadline = end_of_churn;
            if next_start < starts.len() {
                deadline = deadline.min(starts[next_start].0);
            }
            if next_cancel < cancels.len() {
                deadline = deadline.min(cancels[next_cancel].0);
            }
            // wake up regularly to look at abandon conditions
            deadline = deadline.min(clock::now() + 50 * MS);
            let st = ex.run_until(deadline, || {
                let a = adv.borrow();
                running.iter().any(|(_, (_, node, ab))| ab.map(|k| a.sent_msgs[*node] >= k).unwrap_or(false))
            });
            if st == Stop::PollLimit {
                return Case::inconclusive("poll watchdog during churn");
            }
            let now = clock::now();
            // abandon: cancel the initiator task once its k-th message is out
            let to_kill: Vec<usize> = {
                let a = adv.borrow();
                running
                    .iter()
                    .filter(|(_, (_, node, ab))| ab.map(|k| a.sent_msgs[*node] >= k).unwrap_or(false))
                    .map(|(i, _)| *i)
                    .collect()
            };
            for i in to_kill {
                if let Some((task, _, _)) = running.remove(&i) {
                    ex.kill(task);
                }
            }
            running.retain(|i, _| !done.borrow().contains_key(i));
            while next_cancel < cancels.len() && cancels[next_cancel].0 <= now {
                // cancel the handler that is next in line (or all of them), then give the
                // device fresh ones
                let which: Vec<usize> = if case.cancel_all { (0..handlers.len()).collect() } else { vec![next_cancel % handlers.len()] };
                for h in which {
                    ex.kill(handlers[h]);
                    let r = &responder;
                    handlers[h] = ex.spawn(&format!("dev.h{h}'"), async move {
                        let _ = r.handle(h).await;
                    });
                }
                labels.push(if case.cancel_all { "all-handlers-cancelled" } else { "handler-cancelled" }.into());
                next_cancel += 1;
            }
            while next_start < starts.len() && starts[next_start].0 <= now {
                let (_, i) = starts[next_start];
                next_start += 1;
                let a = &case.attempts[i];
                let n = a.node as usize;
                // one attempt per node at a time: a node still busy skips this attempt
                if running.values().any(|(_, node, _)| *node == n) || node_busy_until[n] > now {
                    continue;
                }
                {
                    let mut ad = adv.borrow_mut();
                    ad.sent_msgs[n] = 0;
                    ad.last_ctr[n] = None;
                    ad.muted[1 + n] = false;
                    ad.vanish_after[n] = None;
                    ad.garbage[n] = None;
                    match &a.kind {
                        Kind::PaseVanish(k) | Kind::CaseVanish(k) => ad.vanish_after[n] = Some(*k),
                        Kind::PaseGarbage(k, b) | Kind::CaseGarbage(k, b) => ad.garbage[n] = Some((*k, *b)),
                        _ => {}
                    }
                }
                let (pase, passcode, abandon) = match &a.kind {
                    Kind::PaseOk | Kind::PaseVanish(_) | Kind::PaseGarbage(..) => (true, 20202021, None),
                    Kind::PaseWrong => (true, 11111111, None),
                    Kind::PaseAbandon(k) => (true, 20202021, Some(*k)),
                    Kind::CaseOk | Kind::CaseVanish(_) | Kind::CaseGarbage(..) => (false, 0, None),
                    Kind::CaseAbandon(k) => (false, 0, Some(*k)),
                };
                if let Kind::PaseAbandon(k) | Kind::PaseVanish(k) = &a.kind {
                    abandoned_steps.insert(format!("pase{k}"));
                }
                if let Kind::CaseAbandon(k) | Kind::CaseVanish(k) = &a.kind {
                    abandoned_steps.insert(format!("case{k}"));
                }
                let task = spawn_attempt(&mut ex, &inits[n], &cis[n], pase, passcode, Some(fab_idxs[n]), DEV_NODE, &done, i);
                running.insert(i, (task, n, abandon));
                if matches!(a.kind, Kind::PaseVanish(_) | Kind::CaseVanish(_)) {
                    node_busy_until[n] = now + 25 * SEC;
                }
            }
            peak_sessions = peak_sessions.max(sessions(&device).len());
            // the session in use must never disappear
            if !sessions(&device).iter().any(|s| s.local_sess_id == planted.b_sess_id && matches!(s.mode, SessionMode::Case { .. })) {
                verdict = Some(Case::fail(
                    "evicted:session-with-live-exchange",
                    format!("at {now} the device no longer holds the session whose exchange is open; table: {:?}", table_report(&device)),
                ));
                break;
            }
            if now >= end_of_churn {
                break;
            }
        }

        if verdict.is_none() {
            // ------------------------------------------------------------ quiescence
            for (_, (task, _, _)) in running.drain() {
                ex.kill(task);
            }
            {
                let mut ad = adv.borrow_mut();
                for m in ad.muted.iter_mut() {
                    *m = false;
                }
                ad.vanish_after = [None; N_INIT];
                ad.garbage = [None; N_INIT];
            }
            // past the PASE establishment timeout (60 s), the auto-armed fail-safe (60 s), the
            // MRP receive timeouts and the accept timeout
            if ex.run_for(200 * SEC) == Stop::PollLimit {
                return Case::inconclusive("poll watchdog during quiescence");
            }
            let dev = sessions(&device);
            for s in &dev {
                if s.reserved {
                    verdict.get_or_insert_with(|| {
                        Case::fail("leak:reserved-session", format!("device still holds a reserved session slot after quiescence: {:?}", table_report(&device)))
                    });
                }
                let in_use = s.local_sess_id == planted.b_sess_id && matches!(s.mode, SessionMode::Case { .. });
                for e in s.exchanges.iter().flatten() {
                    if !in_use {
                        verdict.get_or_insert_with(|| {
                            Case::fail(
                                "leak:exchange-slot",
                                format!("device session {} ({:?}) still has exchange {:#x} (initiator={}, state={}) after quiescence: {:?}", s.local_sess_id, s.mode, e.exch_id, e.initiator, e.state, table_report(&device)),
                            )
                        });
                    }
                }
            }
            if !dev.iter().any(|s| s.local_sess_id == planted.b_sess_id && matches!(s.mode, SessionMode::Case { .. })) {
                verdict.get_or_insert_with(|| {
                    Case::fail("evicted:session-with-live-exchange", format!("the in-use session is gone after quiescence: {:?}", table_report(&device)))
                });
            }
            for (i, m) in inits.iter().enumerate() {
                for s in sessions(m) {
                    if s.reserved || s.exchanges.iter().flatten().count() > 0 {
                        verdict.get_or_insert_with(|| {
                            Case::fail(
                                "leak:initiator-slot",
                                format!("initiator {i} still holds a reserved session or an exchange after quiescence: {:?}", table_report(m)),
                            )
                        });
                    }
                }
            }
        }

        if verdict.is_none() {
            // ------------------------------------------------------------ probe
            if !device.comm_window_state().is_open() {
                let _ = device.open_basic_comm_window(900, &cd, &());
            }
            let idle = sessions(&device)
                .iter()
                .filter(|s| s.exchanges.iter().flatten().count() == 0 && !s.reserved)
                .count();
            let full = sessions(&device).len() >= 16;
            // every kind of handshake has to get through: PASE (the single "handshake in
            // progress" slot must have been released) and CASE, up to three tries each
            let mut refused: Vec<&str> = Vec::new();
            for (what, use_pase) in [("PASE", true), ("CASE", false)] {
                let mut ok = false;
                for _attempt in 0..3 {
                    let (m, c, pr) = (&probe, &cp, &probe_result);
                    let fab = *fab_idxs.last().unwrap();
                    let t = ex.spawn("probe", async move {
                        let r = async {
                            let exch = Exchange::initiate_plaintext(m, c, node_addr(0)).await?;
                            if use_pase {
                                PaseInitiator::perform(exch, c, 20202021).await
                            } else {
                                CaseInitiator::perform(exch, c, fab, DEV_NODE).await
                            }
                        }
                        .await;
                        pr.borrow_mut().push(r.is_ok());
                    });
                    let dl = clock::now() + 40 * SEC;
                    let n0 = probe_result.borrow().len();
                    ex.run_until(dl, || probe_result.borrow().len() > n0);
                    ex.kill(t);
                    if probe_result.borrow().len() > n0 && probe_result.borrow().last() == Some(&true) {
                        ok = true;
                        break;
                    }
                    // Busy: wait as told (the stack says 500 ms) and retry
                    ex.run_for(2 * SEC);
                }
                if !ok {
                    refused.push(what);
                }
            }
            if !refused.is_empty() && (idle > 0 || !full) {
                verdict = Some(Case::fail(
                    if refused.len() == 2 { "probe:legitimate-handshake-refused".to_string() } else { format!("probe:legitimate-{}-handshake-refused", refused[0]) },
                    format!(
                        "after the churn settled, three {:?} handshakes each from a fresh node all failed although {idle} session(s) were idle (table full: {full}); table: {:?}",
                        refused,
                        table_report(&device)
                    ),
                ));
            }
            if full {
                labels.push("table-full-at-probe".into());
            }
        }
        release.set(true);
        ex.run_for(2 * SEC);
    }

    if let Some(v) = verdict {
        return v;
    }
    if peak_sessions >= 16 {
        labels.push("table-reached-capacity".into());
    }
    let nontrivial = peak_sessions >= 16 || abandoned_steps.len() >= 3;
    Case::pass(nontrivial).labels(labels)
}

// ------------------------------------------------------------------ resolve rendezvous

#[derive(Debug, Clone, Serialize, Deserialize)]
struct ResolveCase {
    /// per waiter: (drop after ms, whether the responder picks the request up before that,
    /// whether the answer is deposited right before the waiter is dropped - i.e. the waiter
    /// goes away with its answer sitting in the slot, unconsumed)
    waiters: Vec<(u32, bool, bool)>,
    seed: u32,
}

fn resolve_strategy() -> impl Strategy<Value = ResolveCase> {
    (
        prop::collection::vec((prop_oneof![0u32..50, 50u32..3_000, 3_000u32..40_000], any::<bool>(), any::<bool>()), 1..5),
        any::<u32>(),
    )
        .prop_map(|(waiters, seed)| ResolveCase { waiters, seed })
}

fn check_resolve(case: &ResolveCase) -> Case {
    vh::sim::reset_universe();
    let net = Net::new(2);
    let cd = mk_crypto(case.seed);
    let cc = mk_crypto(case.seed ^ 0x9999);
    let cgen = mk_crypto(case.seed ^ 0x5eed);
    let device = new_matter(5540);
    let ctrl = new_matter(5541);
    const DEV_NODE: u64 = 0x2000;
    let ca = match Ca::new(&cgen, 0x42, false, 3) {
        Ok(c) => c,
        Err(e) => return Case::inconclusive(format!("CA: {e:?}")),
    };
    let fab = (|| -> Result<core::num::NonZeroU8, rs_matter::error::Error> {
        let dm = new_member(&cgen, &ca, DEV_NODE, &[])?;
        install(&device, &cd, &ca, &dm, 0x1000)?;
        let cm = new_member(&cgen, &ca, 0x1000, &[])?;
        install(&ctrl, &cc, &ca, &cm, 0x1000)
    })();
    let fab = match fab {
        Ok(f) => f,
        Err(e) => return Case::inconclusive(format!("fabric: {e:?}")),
    };

    let pick_up = Cell::new(false);
    let answer = Cell::new(false);
    let picked = Cell::new(0u32);
    let picked_name: RefCell<Option<String>> = RefCell::new(None);
    let final_ok: RefCell<Option<bool>> = RefCell::new(None);
    let mut dropped_answered = 0;
    let mut dropped_in_flight = 0;
    let mut dropped_requested = 0;
    {
        let sc = SecureChannel::new(&cd, &());
        let responder = Responder::new("device", sc, &device, 0);
        let mut ex = Exec::new(Sched::Fifo);
        ex.add_time_source(&net);
        ex.spawn("dev.run", async {
            let _ = device.run(&cd, net.end(0), net.end(0), NoNetwork).await;
        });
        ex.spawn("dev.resp", async {
            let _ = responder.run::<2>().await;
        });
        ex.spawn("ctrl.run", async {
            let _ = ctrl.run(&cc, net.end(1), net.end(1), NoNetwork).await;
        });
        // the harness plays the mDNS responder
        {
            let (m, pu, an, pk, pn) = (&ctrl, &pick_up, &answer, &picked, &picked_name);
            ex.spawn("mdns", async move {
                loop {
                    while !pu.get() {
                        Timer::after(Duration::from_millis(5)).await;
                    }
                    let service = m.transport().wait_mdns_resolve_request().await;
                    pk.set(pk.get() + 1);
                    let MatterRemoteService::Operational { .. } = &service else { continue };
                    let mut name = heapless::String::<128>::new();
                    service.instance_name(&mut name);
                    *pn.borrow_mut() = Some(name.as_str().to_string());
                    if !an.get() {
                        continue;
                    }
                    let Address::Udp(SocketAddr::V6(sock)) = node_addr(0) else { continue };
                    m.transport().try_deposit_mdns_resolve(
                        &MdnsRemoteService {
                            instance_name: DottedName(name.as_str()),
                            port: Some(sock.port()),
                            addrs: core::iter::once(IpAddr::V6(*sock.ip())),
                            txt: core::iter::empty::<(&str, &str)>(),
                            scope_id: 0,
                        },
                        &[],
                    );
                }
            });
        }
        for (i, (ms, pickup, deposit)) in case.waiters.iter().enumerate() {
            pick_up.set(*pickup);
            answer.set(false);
            *picked_name.borrow_mut() = None;
            let before = picked.get();
            let (m, c) = (&ctrl, &cc);
            let t = ex.spawn(&format!("waiter{i}"), async move {
                let _ = Exchange::initiate(m, c, fab, DEV_NODE).await;
            });
            ex.run_for(*ms as u64 * MS);
            if !ex.is_done(t) {
                let name = picked_name.borrow().clone();
                if let (true, true, Some(name)) = (picked.get() > before, *deposit, name) {
                    // the answer arrives - and the waiter is dropped before it is polled again
                    if let Address::Udp(SocketAddr::V6(sock)) = node_addr(0) {
                        ctrl.transport().try_deposit_mdns_resolve(
                            &MdnsRemoteService {
                                instance_name: DottedName(name.as_str()),
                                port: Some(sock.port()),
                                addrs: core::iter::once(IpAddr::V6(*sock.ip())),
                                txt: core::iter::empty::<(&str, &str)>(),
                                scope_id: 0,
                            },
                            &[],
                        );
                        dropped_answered += 1;
                    }
                } else if picked.get() > before {
                    dropped_in_flight += 1;
                } else {
                    dropped_requested += 1;
                }
            }
            ex.kill(t);
            ex.run_for(10 * MS);
        }
        // now a legitimate resolve + CASE must be served
        pick_up.set(true);
        answer.set(true);
        let (m, c, fo) = (&ctrl, &cc, &final_ok);
        let t = ex.spawn("final", async move {
            let r = Exchange::initiate(m, c, fab, DEV_NODE).await;
            *fo.borrow_mut() = Some(r.is_ok());
        });
        let dl = clock::now() + 120 * SEC;
        let st = ex.run_until(dl, || final_ok.borrow().is_some());
        ex.kill(t);
        if st == Stop::PollLimit {
            return Case::inconclusive("poll watchdog");
        }
    }
    let fin = *final_ok.borrow();
    match fin {
        Some(true) => Case::pass(dropped_in_flight + dropped_requested + dropped_answered > 0)
            .label(format!("dropped-answered-{dropped_answered}"))
            .label(format!("dropped-requested-{dropped_requested}"))
            .label(format!("dropped-inflight-{dropped_in_flight}")),
        other => Case::fail(
            "rendezvous:not-released",
            format!(
                "after {dropped_requested} waiter(s) dropped in state Requested, {dropped_in_flight} in state InFlight and {dropped_answered} with the answer deposited but not consumed, a new Exchange::initiate was not served within 120 s (result {other:?})"
            ),
        ),
    }
}

// ------------------------------------------------------------------------------------------
// pase-purge: the purge of PASE sessions that runs on CommissioningComplete, RevokeCommissioning
// and fail-safe expiry, on real session tables of every layout.

#[derive(Debug, Clone, Serialize, Deserialize)]
struct PurgeCase {
    /// table layout in creation order: 0 = unsecured, 1 = PASE, 2 = CASE
    layout: Vec<u8>,
    /// which session (selector over the table) carries the triggering command and must be
    /// preserved for its in-flight response; None = nobody (timer expiry)
    keep: Option<u16>,
    /// sessions removed (by id order selector) before the purge, so that the table has been
    /// through swap-removes already
    pre_remove: Vec<u16>,
}

fn purge_strategy() -> impl Strategy<Value = PurgeCase> {
    (
        prop::collection::vec(prop_oneof![1 => Just(0u8), 3 => Just(1u8), 2 => Just(2u8)], 1..15),
        prop_oneof![1 => Just(None), 3 => any::<u16>().prop_map(Some)],
        prop::collection::vec(any::<u16>(), 0..3),
    )
        .prop_map(|(layout, keep, pre_remove)| PurgeCase { layout, keep, pre_remove })
}

fn check_purge(case: &PurgeCase) -> Case {
    vh::sim::reset_universe();
    let c = mk_crypto(7);
    let m = new_matter(5540);
    let mut ids: Vec<(u32, u8)> = Vec::new();
    for (i, k) in case.layout.iter().enumerate() {
        let kind = match k {
            0 => SessKind::Plain,
            1 => SessKind::Pase,
            _ => SessKind::Case,
        };
        let key = [i as u8 + 1; 16];
        match vh::sim::node::plant_half(
            &m,
            &c,
            kind,
            if *k == 1 { 0 } else { 0x1000 + i as u64 },
            if *k == 1 { 0 } else { 0x2000 + i as u64 },
            0x100 + i as u16,
            0x200 + i as u16,
            vh::sim::net::alien_addr(i),
            &key,
            &key,
            1,
            Default::default(),
        ) {
            Ok(id) => ids.push((id, *k)),
            Err(e) => return Case::inconclusive(format!("plant: {e:?}")),
        }
    }
    // a few removals first (eviction, CloseSession): the table order is no longer creation order
    for sel in &case.pre_remove {
        if ids.len() > 1 {
            let (id, _) = ids.remove(vh::util::pick(*sel, ids.len()));
            m.with_state(|st| {
                st.verif_sessions_mut().remove(id);
            });
        }
    }
    let before = sessions(&m);
    let keep = case.keep.map(|sel| ids[vh::util::pick(sel, ids.len())]);
    m.with_state(|st| st.verif_sessions_mut().remove_pase(keep.map(|k| k.0)));
    let after = sessions(&m);

    let is_pase = |s: &rs_matter::transport::session::verif::SessionSnapshot| matches!(s.mode, SessionMode::Pase { .. });
    // 1. no PASE session survives, except the preserved one - which no longer accepts new exchanges
    for s in &after {
        if is_pase(s) {
            if Some(s.id) != keep.map(|k| k.0) {
                return Case::fail(
                    "purge:pase-session-survived",
                    format!("PASE session {} (local id {:#x}) is still in the table after the purge (preserved: {:?}); table before: {:?}", s.id, s.local_sess_id, keep, before.iter().map(|s| (s.id, is_pase(s))).collect::<Vec<_>>()),
                );
            }
            if !s.expired {
                return Case::fail(
                    "purge:preserved-pase-session-not-expired",
                    format!("the PASE session {} kept for the in-flight response still accepts new exchanges", s.id),
                );
            }
        }
    }
    // 2. the preserved PASE session is still there (its response has to go out)
    if let Some((id, 1)) = keep {
        if !after.iter().any(|s| s.id == id) {
            return Case::fail("purge:preserved-session-removed", format!("session {id} carrying the triggering command was removed"));
        }
    }
    // 3. every other session is untouched
    for b in before.iter().filter(|s| !is_pase(s)) {
        match after.iter().find(|s| s.id == b.id) {
            None => return Case::fail("purge:other-session-removed", format!("non-PASE session {} disappeared", b.id)),
            Some(a) => {
                if a.expired != b.expired || a.mode != b.mode || a.local_sess_id != b.local_sess_id || a.peer_sess_id != b.peer_sess_id || a.dec_key != b.dec_key {
                    return Case::fail("purge:other-session-changed", format!("non-PASE session {} changed: {:?} -> {:?}", b.id, (b.expired, b.local_sess_id), (a.expired, a.local_sess_id)));
                }
            }
        }
    }
    let n_pase = before.iter().filter(|s| is_pase(s)).count();
    let mut labels = vec![format!("pase={}", n_pase.min(4))];
    if matches!(keep, Some((_, 1))) {
        labels.push("preserve-pase".into());
    }
    Case::pass(n_pase >= 2).labels(labels)
}

// ------------------------------------------------------------------------------------------
// eviction: a full session table and a request for one more session. Sessions that carry a live
// exchange are never evicted (expired or not); with at least one idle session the request succeeds.

#[derive(Debug, Clone, Serialize, Deserialize)]
struct EvictCase {
    /// per session of the full table: (kind 1 = PASE / 2 = CASE, holds a live exchange, expired)
    table: Vec<(u8, bool, bool)>,
    sched: Option<u64>,
    /// the request arrives while the transmit buffer is busy with a slow send; meanwhile
    /// exchanges open on every idle session except one (selector)
    #[serde(default)]
    race_spare: Option<u16>,
}

fn evict_strategy() -> impl Strategy<Value = EvictCase> {
    (
        prop::collection::vec(
            (prop_oneof![1 => Just(1u8), 3 => Just(2u8)], prop::bool::weighted(0.75), prop::bool::weighted(0.3)),
            16,
        ),
        prop_oneof![1 => Just(None), 2 => any::<u64>().prop_map(Some)],
        prop_oneof![1 => Just(None), 1 => any::<u16>().prop_map(Some)],
    )
        .prop_map(|(table, sched, race_spare)| EvictCase { table, sched, race_spare })
}

fn check_evict(case: &EvictCase) -> Case {
    use rs_matter::transport::session::ReservedSession;
    vh::sim::reset_universe();
    let net = Net::new(1);
    let c = mk_crypto(11);
    let m = new_matter(5540);
    let mut ids: Vec<u32> = Vec::new();
    for (i, (k, _, _)) in case.table.iter().enumerate() {
        let key = [i as u8 + 1; 16];
        let kind = if *k == 1 { SessKind::Pase } else { SessKind::Case };
        // every CASE session on a fabric index of its own, so that one can be expired alone
        match vh::sim::node::plant_half(
            &m,
            &c,
            kind,
            if *k == 1 { 0 } else { 0x1000 + i as u64 },
            if *k == 1 { 0 } else { 0x2000 + i as u64 },
            0x100 + i as u16,
            0x200 + i as u16,
            vh::sim::net::alien_addr(i),
            &key,
            &key,
            i as u8 + 1,
            Default::default(),
        ) {
            Ok(id) => ids.push(id),
            // the table may be smaller than 16 in another build: work with what fits
            Err(_) => break,
        }
    }
    if ids.len() < 2 {
        return Case::inconclusive("could not plant sessions");
    }
    // full? (otherwise the request trivially succeeds: still a valid, if dull, case)
    let full = ReservedSession::reserve_now(&m, &c).is_err();
    // live exchanges first (an expired session refuses new ones), then the expiry marks
    let mut held = Vec::new();
    let mut busy: Vec<u32> = Vec::new();
    for (i, id) in ids.iter().enumerate() {
        if case.table[i].1 {
            match Exchange::initiate_for_session(&m, &c, *id) {
                Ok(e) => {
                    held.push(e);
                    busy.push(*id);
                }
                Err(e) => return Case::inconclusive(format!("initiate: {:?}", e.code())),
            }
        }
    }
    let mut expired: Vec<u32> = Vec::new();
    for (i, id) in ids.iter().enumerate() {
        if case.table[i].2 {
            // (only CASE sessions are expired here: each lives on a fabric index of its own)
            if case.table[i].0 == 2 {
                let fab = std::num::NonZeroU8::new(i as u8 + 1).unwrap();
                m.with_state(|st| st.verif_sessions_mut().remove_for_fabric(fab, Some(*id)));
                expired.push(*id);
            }
        }
    }
    // time passes: the sessions were not all used in the very tick in which the request arrives
    clock::advance_to(clock::now() + 50 * MS);
    let before = sessions(&m);
    let idle_exists = before.iter().any(|s| !s.reserved && s.exchanges.iter().flatten().count() == 0);
    let outcome: RefCell<Option<Result<(), String>>> = RefCell::new(None);
    let late_held: RefCell<Vec<Exchange<'_>>> = RefCell::new(Vec::new());
    let late_busy: RefCell<Vec<u32>> = RefCell::new(Vec::new());
    let mut raced = false;
    {
        let mut ex = Exec::new(match case.sched {
            None => Sched::Fifo,
            Some(s) => Sched::Seeded(s),
        });
        ex.add_time_source(&net);
        ex.spawn("dev.run", async {
            let _ = m.run(&c, net.end(0), net.end(0), NoNetwork).await;
        });
        if let Some(sel) = case.race_spare {
            // the idle sessions (not expired: an expired session takes no new exchange)
            let idle: Vec<u32> = before
                .iter()
                .filter(|s| !s.reserved && !s.expired && s.exchanges.iter().flatten().count() == 0)
                .map(|s| s.id)
                .collect();
            if idle.len() >= 2 {
                raced = true;
                let spare = idle[vh::util::pick(sel, idle.len())];
                net.set_slow_send(0, 2 * SEC);
                let (m, c, late_held, late_busy) = (&m, &c, &late_held, &late_busy);
                // something to send: an unreliable message on a session that stays busy anyway
                let carrier = busy.first().copied().unwrap_or(spare);
                ex.spawn("slow.tx", async move {
                    if let Ok(mut e) = Exchange::initiate_for_session(m, c, carrier) {
                        let _ = e.send(rs_matter::transport::exchange::MessageMeta::new(0x00F7, 1, false), &[7]).await;
                    }
                });
                ex.spawn("late.exchanges", async move {
                    embassy_time::Timer::after(embassy_time::Duration::from_millis(200)).await;
                    for id in idle {
                        if id != spare {
                            if let Ok(e) = Exchange::initiate_for_session(m, c, id) {
                                late_held.borrow_mut().push(e);
                                late_busy.borrow_mut().push(id);
                            }
                        }
                    }
                });
            }
        }
        {
            let (m, c, out) = (&m, &c, &outcome);
            let delay = if raced { 100 } else { 0 };
            ex.spawn("reserve", async move {
                if delay > 0 {
                    embassy_time::Timer::after(embassy_time::Duration::from_millis(delay)).await;
                }
                let r = ReservedSession::reserve(m, c).await;
                *out.borrow_mut() = Some(match r {
                    Ok(s) => {
                        drop(s);
                        Ok(())
                    }
                    Err(e) => Err(format!("{:?}", e.code())),
                });
            });
        }
        if ex.run_for(10 * SEC) == Stop::PollLimit {
            return Case::inconclusive("poll watchdog");
        }
    }
    let after = sessions(&m);
    // E1: no session with a live exchange was evicted - including those whose exchange opened
    // while the request was waiting for the transmit buffer
    for id in late_busy.borrow().iter() {
        if !after.iter().any(|s| s.id == *id) {
            return Case::fail(
                "evicted:session-whose-exchange-opened-while-the-eviction-waited",
                format!("session {id} got a live exchange while the request for a new session was waiting for the transmit buffer, and was evicted all the same although another session was idle; table before: {:?}", before.iter().map(|s| (s.id, s.expired, s.exchanges.iter().flatten().count())).collect::<Vec<_>>()),
            );
        }
    }
    for id in &busy {
        if !after.iter().any(|s| s.id == *id) {
            let was_expired = expired.contains(id);
            return Case::fail(
                if was_expired { "evicted:expired-session-with-live-exchange" } else { "evicted:session-with-live-exchange" },
                format!("session {id} carried a live exchange (expired: {was_expired}) and was evicted to make room for a new session; table before: {:?}", before.iter().map(|s| (s.id, s.expired, s.exchanges.iter().flatten().count())).collect::<Vec<_>>()),
            );
        }
    }
    // E2: with an idle session the request succeeds
    let out = outcome.borrow().clone();
    if full && idle_exists && !matches!(out, Some(Ok(()))) {
        return Case::fail(
            "full-table:request-refused-although-a-session-was-idle",
            format!("outcome {out:?}; table before: {:?}", before.iter().map(|s| (s.id, s.expired, s.exchanges.iter().flatten().count())).collect::<Vec<_>>()),
        );
    }
    drop(held);
    drop(late_held);
    let mut labels = vec![if idle_exists { "idle-session-exists" } else { "all-busy" }.to_string()];
    if busy.iter().any(|b| expired.contains(b)) {
        labels.push("expired-and-busy".into());
    }
    if raced {
        labels.push("request-raced-with-new-exchanges".into());
    }
    Case::pass(full && !busy.is_empty()).labels(labels)
}

fn main() {
    let mut run = Run::new(
        "C20",
        "exploration",
        "sequences of 1-27 session-establishment attempts against one device from four nodes (complete PASE/CASE, wrong passcode, initiator cancels after message k, initiator goes silent after message k, garbage in message k, concurrent starts), device handler tasks cancelled at generated instants, one established session kept in use by an open exchange; after the churn the clock advances 200 s and the session/exchange tables of all nodes are inspected, then a fresh node runs probe handshakes (PASE, CASE, PASE). Second sub-check: Exchange::initiate futures dropped while the single-slot mDNS resolve rendezvous is Requested/InFlight, then a legitimate resolve. Third sub-check (pase-purge): real session tables of every layout (1-14 unsecured/PASE/CASE sessions, some removed first) go through the purge of PASE sessions that runs on CommissioningComplete / RevokeCommissioning / fail-safe expiry, with or without a session preserved for the in-flight response; non-trivial: at least two PASE sessions in the table. Fourth sub-check (eviction): a full table of PASE/CASE sessions, each with or without a live exchange and expired or not, and a request for one more session: sessions carrying a live exchange are never evicted, and with an idle session the request succeeds; non-trivial: the table was full and at least one session was busy. Non-trivial: the device's session table reached capacity, or attempts were abandoned at >= 3 different steps (churn); at least one waiter dropped (rendezvous); distinct = distinct serialized case",
    );
    run.assume("default table sizes (16 sessions, 5 exchanges per session); the max-sessions-3 build of the design is not part of the quick tier");
    run.assume("idle unsecured (plaintext) sessions without exchanges may linger until evicted, as in the CHIP SDK's unauthenticated-session pool: they are reclaimable on demand, which the probe handshakes verify");
    run.assume("a probe may be answered Busy once or twice (three attempts, 2 s apart) before it has to succeed");
    let n = run.cases(1_500, 60_000);
    run.prop("handshake-churn", n, churn_strategy, check_churn);
    let n = run.cases(1_000, 40_000);
    run.prop("resolve-rendezvous", n, resolve_strategy, check_resolve);
    let n = run.cases(200_000, 3_000_000);
    run.prop("pase-purge", n, purge_strategy, check_purge);
    let n = run.cases(20_000, 1_000_000);
    run.prop("eviction", n, evict_strategy, check_evict);
    run.finish();
}
