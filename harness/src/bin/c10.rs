//! C10 — A message reaches only its own exchange, and the receive path never wedges.
//!
//! A device with generated handler behaviours (echo, echo late, stay silent, hold, drop in the
//! middle) serves 1-4 concurrent exchanges of an honest controller on 1-2 sessions while a
//! misbehaving-but-authenticated third peer (the harness, holding the keys of its own planted
//! session) injects crafted secured messages with arbitrary exchange id / initiator flag /
//! protocol / opcode / R-A flags, opens exchanges it never finishes and closes its session while
//! handlers are waiting on it. Oracle: routing invariants D1-D6 over handler logs, controller
//! logs, session tables and the wire tap; "never wedges" is decided as bounded virtual time.

use std::cell::RefCell;

use proptest::prelude::*;
use serde::{Deserialize, Serialize};

use embassy_futures::select::{select, Either};
use embassy_time::{Duration, Timer};

use rs_matter::crypto::CanonAeadKeyRef;
use rs_matter::error::Error;
use rs_matter::respond::{ExchangeHandler, Responder};
use rs_matter::sc::{GeneralCode, OpCode, SCStatusCodes, StatusReport, PROTO_ID_SECURE_CHANNEL};
use rs_matter::transport::exchange::{Exchange, MessageMeta};
use rs_matter::transport::network::NoNetwork;
use rs_matter::transport::packet::PacketHdr;
use rs_matter::transport::session::NocCatIds;
use rs_matter::utils::storage::WriteBuf;

use vh::sim::net::{alien_addr, node_addr, Net};
use vh::sim::node::{mk_crypto, new_matter, plant_half, plant_pair, sessions, SessKind};
use vh::sim::{clock, Exec, Sched, Stop, MS, SEC};
use vh::{Case, Run};

const APP: u16 = 0x00F7;
const OP_REQ: u8 = 1;
const OP_RSP: u8 = 2;

#[derive(Debug, Clone, Copy, PartialEq, Eq, Serialize, Deserialize)]
enum Beh {
    Echo,
    /// respond after that many ms
    EchoLate(u16),
    /// receive and drop the exchange without answering
    Silent,
    /// keep the exchange (and the handler) for that many ms, then drop it
    Hold(u16),
    /// answer the first request, then drop the exchange while the peer continues
    DropAfterFirst,
}

#[derive(Debug, Clone, Serialize, Deserialize)]
struct HonestExch {
    /// which of the controller's sessions (selector)
    session: u8,
    start_ms: u16,
    beh: Beh,
    /// number of request/response rounds
    rounds: u8,
}

#[derive(Debug, Clone, Copy, PartialEq, Eq, Serialize, Deserialize)]
enum CraftKind {
    /// application request (behaviour given) — opens an exchange when the initiator flag is set
    App(Beh),
    StandaloneAck,
    StatusGeneral,
    CloseSession,
    /// an *unsecured* stand-alone ack / status report that belongs to no session, sent to the
    /// device (as if from the controller's address) or to the controller (as if from the device)
    StrayUnsecured { to_ctrl: bool, status: bool },
}

#[derive(Debug, Clone, Serialize, Deserialize)]
struct Crafted {
    t_ms: u16,
    exch_id: u16,
    initiator: bool,
    reliable: bool,
    ack: bool,
    kind: CraftKind,
}

/// An exchange the *device* opens towards the hostile peer (the device is the initiator). When
/// the hostile peer sees the request it sends, on the same session and with the *same exchange
/// id*, a mix of messages with the initiator flag set (the peer opening an exchange of its own
/// whose id happens to collide - legal, both sides allocate ids independently) and clear (answers).
#[derive(Debug, Clone, Serialize, Deserialize)]
struct DevInit {
    start_ms: u16,
    /// how long the device application keeps receiving on its exchange
    listen_ms: u16,
    /// (delay after the request was seen, initiator flag, reliable flag)
    collide: Vec<(u16, bool, bool)>,
}

#[derive(Debug, Clone, Serialize, Deserialize)]
struct C10Case {
    sessions: u8,
    honest: Vec<HonestExch>,
    crafted: Vec<Crafted>,
    handlers: u8,
    sched: Option<u64>,
    seed: u32,
    #[serde(default)]
    dev_init: Vec<DevInit>,
}

fn beh() -> impl Strategy<Value = Beh> {
    prop_oneof![
        4 => Just(Beh::Echo),
        2 => (1u16..3000).prop_map(Beh::EchoLate),
        1 => Just(Beh::Silent),
        1 => (100u16..8000).prop_map(Beh::Hold),
        1 => Just(Beh::DropAfterFirst),
    ]
}

fn case_strategy() -> impl Strategy<Value = C10Case> {
    (
        1u8..3,
        prop::collection::vec(
            (any::<u8>(), 0u16..3000, beh(), 1u8..4).prop_map(|(session, start_ms, beh, rounds)| HonestExch {
                session,
                start_ms,
                beh,
                rounds,
            }),
            1..5,
        ),
        prop::collection::vec(
            (
                0u16..6000,
                prop_oneof![3 => 1u16..5, 1 => any::<u16>()],
                any::<bool>(),
                any::<bool>(),
                prop::bool::weighted(0.3),
                prop_oneof![
                    4 => beh().prop_map(CraftKind::App),
                    1 => Just(CraftKind::StandaloneAck),
                    1 => Just(CraftKind::StatusGeneral),
                    1 => Just(CraftKind::CloseSession),
                    1 => (any::<bool>(), any::<bool>()).prop_map(|(to_ctrl, status)| CraftKind::StrayUnsecured { to_ctrl, status }),
                ],
            )
                .prop_map(|(t_ms, exch_id, initiator, reliable, ack, kind)| Crafted {
                    t_ms,
                    exch_id,
                    initiator,
                    reliable,
                    ack,
                    kind,
                }),
            0..12,
        ),
        2u8..5,
        prop_oneof![1 => Just(None), 3 => any::<u64>().prop_map(Some)],
        any::<u32>(),
        prop_oneof![
            1 => Just(Vec::new()),
            1 => prop::collection::vec(
                (
                    0u16..4000,
                    200u16..6000,
                    prop::collection::vec((0u16..1500, prop::bool::weighted(0.6), any::<bool>()), 1..5),
                )
                    .prop_map(|(start_ms, listen_ms, collide)| DevInit { start_ms, listen_ms, collide }),
                1..3,
            ),
        ],
    )
        .prop_map(|(sessions, honest, crafted, handlers, sched, seed, dev_init)| C10Case {
            sessions,
            honest,
            crafted,
            handlers,
            sched,
            seed,
            dev_init,
        })
}

/// payload = [origin, tag, seq, beh code, param lo, param hi]
fn payload(origin: u8, tag: u8, seq: u8, beh: Beh) -> [u8; 6] {
    let (code, param) = match beh {
        Beh::Echo => (0u8, 0u16),
        Beh::EchoLate(d) => (1, d),
        Beh::Silent => (2, 0),
        Beh::Hold(d) => (3, d),
        Beh::DropAfterFirst => (4, 0),
    };
    [origin, tag, seq, code, param as u8, (param >> 8) as u8]
}

fn parse_beh(p: &[u8]) -> Option<(u8, u8, u8, Beh)> {
    if p.len() < 6 {
        return None;
    }
    let param = p[4] as u16 | ((p[5] as u16) << 8);
    let beh = match p[3] {
        0 => Beh::Echo,
        1 => Beh::EchoLate(param),
        2 => Beh::Silent,
        3 => Beh::Hold(param),
        4 => Beh::DropAfterFirst,
        _ => return None,
    };
    Some((p[0], p[1], p[2], beh))
}

#[derive(Debug, Clone)]
struct Observed {
    /// a per-handler-invocation number
    invocation: usize,
    origin: u8,
    tag: u8,
    seq: u8,
    opcode: u8,
    proto: u16,
}

struct DeviceHandler<'a> {
    log: &'a RefCell<Vec<Observed>>,
    invocations: &'a RefCell<usize>,
}

impl ExchangeHandler for DeviceHandler<'_> {
    async fn handle(&self, mut exchange: Exchange<'_>) -> Result<(), Error> {
        let inv = {
            let mut i = self.invocations.borrow_mut();
            *i += 1;
            *i
        };
        let mut first: Option<Beh> = None;
        loop {
            let (origin, tag, seq, beh) = {
                let rx = match select(exchange.recv(), Timer::after(Duration::from_secs(20))).await {
                    Either::First(r) => r?,
                    Either::Second(_) => return Ok(()),
                };
                let meta = rx.meta();
                let p = rx.payload();
                let parsed = parse_beh(p);
                self.log.borrow_mut().push(Observed {
                    invocation: inv,
                    origin: parsed.map(|x| x.0).unwrap_or(0xff),
                    tag: parsed.map(|x| x.1).unwrap_or(0xff),
                    seq: parsed.map(|x| x.2).unwrap_or(0xff),
                    opcode: meta.proto_opcode,
                    proto: meta.proto_id,
                });
                match parsed {
                    Some(x) => x,
                    None => return Ok(()),
                }
            };
            let beh = *first.get_or_insert(beh);
            match beh {
                Beh::Echo => {}
                Beh::EchoLate(d) => Timer::after(Duration::from_millis(d as u64)).await,
                Beh::Silent => return Ok(()),
                Beh::Hold(d) => {
                    Timer::after(Duration::from_millis(d as u64)).await;
                    return Ok(());
                }
                Beh::DropAfterFirst => {
                    if seq > 0 {
                        return Ok(());
                    }
                }
            }
            exchange
                .send(MessageMeta::new(APP, OP_RSP, true), &payload(origin, tag, seq, beh))
                .await?;
            if beh == Beh::DropAfterFirst {
                return Ok(());
            }
        }
    }
}

#[derive(Debug, Clone)]
enum Outcome {
    Response { t: u64 },
    WrongResponse { got: Vec<u8> },
    Error { t: u64, code: String },
    Timeout,
}

#[derive(Debug, Clone)]
struct ClientRec {
    tag: u8,
    seq: u8,
    t_sent: u64,
    outcome: Option<Outcome>,
}

async fn client(mut ex: Exchange<'_>, tag: u8, h: &HonestExch, log: &RefCell<Vec<ClientRec>>) {
    for seq in 0..h.rounds {
        let idx = {
            let mut l = log.borrow_mut();
            l.push(ClientRec {
                tag,
                seq,
                t_sent: clock::now(),
                outcome: None,
            });
            l.len() - 1
        };
        let req = payload(1, tag, seq, h.beh);
        let outcome = match ex.send(MessageMeta::new(APP, OP_REQ, true), &req).await {
            Err(e) => Outcome::Error {
                t: clock::now(),
                code: format!("send {:?}", e.code()),
            },
            Ok(()) => match select(ex.recv(), Timer::after(Duration::from_secs(45))).await {
                Either::First(Ok(rx)) => {
                    let p = rx.payload().to_vec();
                    if rx.meta().proto_id == APP && rx.meta().proto_opcode == OP_RSP && p == req {
                        Outcome::Response { t: clock::now() }
                    } else {
                        Outcome::WrongResponse { got: p }
                    }
                }
                Either::First(Err(e)) => Outcome::Error {
                    t: clock::now(),
                    code: format!("recv {:?}", e.code()),
                },
                Either::Second(_) => Outcome::Timeout,
            },
        };
        let stop = !matches!(outcome, Outcome::Response { .. });
        log.borrow_mut()[idx].outcome = Some(outcome);
        if stop {
            break;
        }
    }
}

/// Encode a secured message of the hostile peer.
#[allow(clippy::too_many_arguments)]
fn craft(
    key: &[u8; 16],
    src_node: u64,
    sess_id: u16,
    ctr: u32,
    c: &Crafted,
    ack_ctr: u32,
    tag: u8,
) -> Option<Vec<u8>> {
    let mut hdr = PacketHdr::new();
    hdr.plain.sess_id = sess_id;
    hdr.plain.ctr = ctr;
    hdr.proto.exch_id = c.exch_id;
    if c.initiator {
        hdr.proto.set_initiator();
    }
    if c.reliable {
        hdr.proto.set_reliable();
    } else {
        hdr.proto.unset_reliable();
    }
    if c.ack {
        hdr.proto.set_ack(Some(ack_ctr));
    }
    let mut status_buf = [0u8; 16];
    let body: Vec<u8> = match c.kind {
        CraftKind::App(beh) => {
            hdr.proto.proto_id = APP;
            hdr.proto.proto_opcode = OP_REQ;
            // the payload names the exchange the message claims to belong to: role + exchange id
            let _ = tag;
            payload(if c.initiator { 3 } else { 4 }, c.exch_id as u8, (c.exch_id >> 8) as u8, beh).to_vec()
        }
        CraftKind::StandaloneAck => {
            hdr.proto.proto_id = PROTO_ID_SECURE_CHANNEL;
            hdr.proto.proto_opcode = OpCode::MRPStandAloneAck as u8;
            hdr.proto.unset_reliable();
            hdr.proto.set_ack(Some(ack_ctr));
            vec![]
        }
        CraftKind::StrayUnsecured { .. } => return None,
        CraftKind::StatusGeneral | CraftKind::CloseSession => {
            hdr.proto.proto_id = PROTO_ID_SECURE_CHANNEL;
            hdr.proto.proto_opcode = OpCode::StatusReport as u8;
            let mut wb = WriteBuf::new(&mut status_buf);
            let (gc, pc) = if c.kind == CraftKind::CloseSession {
                (GeneralCode::Success, SCStatusCodes::CloseSession as u16)
            } else {
                (GeneralCode::Failure, SCStatusCodes::InvalidParameter as u16)
            };
            StatusReport { general_code: gc, proto_id: PROTO_ID_SECURE_CHANNEL as u32, proto_code: pc, proto_data: &[] }.write(&mut wb).ok()?;
            wb.as_slice().to_vec()
        }
    };
    let mut buf = vec![0u8; 256];
    let reserve = PacketHdr::HDR_RESERVE;
    let end = reserve + body.len();
    buf[reserve..end].copy_from_slice(&body);
    let crypto = mk_crypto(1);
    let mut wb = WriteBuf::new_with(&mut buf, reserve, end);
    hdr.encode(&crypto, Some(CanonAeadKeyRef::new(key)), src_node, &mut wb).ok()?;
    Some(wb.as_slice().to_vec())
}

/// An unsecured message (session id 0) on an exchange nobody knows.
fn craft_unsecured(ctr: u32, exch_id: u16, status: bool) -> Option<Vec<u8>> {
    let mut hdr = PacketHdr::new();
    hdr.plain.sess_id = 0;
    hdr.plain.ctr = ctr;
    hdr.plain.set_src_nodeid(Some(0x1234_5678_9abc_def0));
    hdr.proto.exch_id = exch_id;
    hdr.proto.unset_reliable();
    hdr.proto.proto_id = PROTO_ID_SECURE_CHANNEL;
    let mut status_buf = [0u8; 16];
    let body: Vec<u8> = if status {
        hdr.proto.proto_opcode = OpCode::StatusReport as u8;
        let mut wb = WriteBuf::new(&mut status_buf);
        StatusReport { general_code: GeneralCode::Failure, proto_id: PROTO_ID_SECURE_CHANNEL as u32, proto_code: SCStatusCodes::SessionNotFound as u16, proto_data: &[] }.write(&mut wb).ok()?;
        wb.as_slice().to_vec()
    } else {
        hdr.proto.proto_opcode = OpCode::MRPStandAloneAck as u8;
        hdr.proto.set_ack(Some(7));
        vec![]
    };
    let mut buf = vec![0u8; 128];
    let reserve = PacketHdr::HDR_RESERVE;
    let end = reserve + body.len();
    buf[reserve..end].copy_from_slice(&body);
    let crypto = mk_crypto(1);
    let mut wb = WriteBuf::new_with(&mut buf, reserve, end);
    hdr.encode(&crypto, None, 0, &mut wb).ok()?;
    Some(wb.as_slice().to_vec())
}

fn check(case: &C10Case) -> Case {
    vh::sim::reset_universe();
    let net = Net::new(2);
    let cd = mk_crypto(case.seed);
    let cc = mk_crypto(case.seed ^ 0xc0c0);
    let device = new_matter(5540);
    let ctrl = new_matter(5541);

    // honest sessions (controller = node 1, device = node 0)
    let mut honest_sessions = Vec::new();
    for i in 0..case.sessions {
        let kind = if i == 0 { SessKind::Case } else { SessKind::Pase };
        match plant_pair(&ctrl, &cc, node_addr(1), &device, &cd, node_addr(0), kind, 0x100 + i as u16, 0x200 + i as u16, 40 + i) {
            Ok(p) => honest_sessions.push(p),
            Err(e) => return Case::inconclusive(format!("plant: {e:?}")),
        }
    }
    // the hostile peer's own session with the device
    let hostile_node: u64 = 0x0000_0000_00BA_D001;
    let dev_node: u64 = 0x0000_0000_0001_B66A;
    let hk_in = [0x5au8; 16]; // hostile -> device
    let hk_out = [0xa5u8; 16];
    let hostile_sid = match plant_half(
        &device,
        &cd,
        SessKind::Case,
        dev_node,
        hostile_node,
        0x0300,
        0x0400,
        alien_addr(0),
        &hk_in,
        &hk_out,
        1,
        NocCatIds::default(),
    ) {
        Ok(id) => id,
        Err(e) => return Case::inconclusive(format!("plant hostile: {e:?}")),
    };
    // what the device's own (initiator) exchanges towards the hostile peer were handed:
    // (dev_init index, origin, claimed exchange id, opcode, protocol)
    let devinit_log: RefCell<Vec<(usize, u8, u16, u8, u16)>> = RefCell::new(Vec::new());
    // exchange ids the device used for them (learnt from the wire), per dev_init index
    let devinit_ids: RefCell<Vec<(usize, u16)>> = RefCell::new(Vec::new());

    let dev_log: RefCell<Vec<Observed>> = RefCell::new(Vec::new());
    let invocations = RefCell::new(0usize);
    let client_log: RefCell<Vec<ClientRec>> = RefCell::new(Vec::new());
    let probe_log: RefCell<Vec<ClientRec>> = RefCell::new(Vec::new());
    let mut labels: Vec<String> = Vec::new();
    let mut verdict: Option<Case> = None;
    let mut datagrams_at_end;
    let mut max_concurrent = 0usize;
    let hostile_ack_ctr = std::cell::Cell::new(0x0200_0000u32);
    {
        let handler = DeviceHandler {
            log: &dev_log,
            invocations: &invocations,
        };
        let responder = Responder::new("device", handler, &device, 0);
        let mut ex = Exec::new(match case.sched {
            None => Sched::Fifo,
            Some(s) => Sched::Seeded(s),
        });
        ex.add_time_source(&net);
        ex.spawn("dev.run", async {
            let _ = device.run(&cd, net.end(0), net.end(0), NoNetwork).await;
        });
        for h in 0..case.handlers {
            let r = &responder;
            ex.spawn(&format!("dev.h{h}"), async move {
                let _ = r.handle(h).await;
            });
        }
        ex.spawn("ctrl.run", async {
            let _ = ctrl.run(&cc, net.end(1), net.end(1), NoNetwork).await;
        });

        // The hostile peer acknowledges what the device sends to it (so that the device's
        // handlers serving its exchanges get back into `recv`, where a wrongly routed message
        // would be observed).
        {
            let (net, ctr) = (&net, &hostile_ack_ctr);
            let (ids, dev_init) = (&devinit_ids, &case.dev_init);
            ex.spawn("hostile.acks", async move {
                let mut seen = 0usize;
                let mut due: Vec<(u64, Crafted)> = Vec::new();
                loop {
                    Timer::after(Duration::from_millis(10)).await;
                    let now = clock::now();
                    let mut k = 0;
                    while k < due.len() {
                        if due[k].0 <= now {
                            let (_, c) = due.remove(k);
                            ctr.set(ctr.get() + 1);
                            if let Some(bytes) = craft(&hk_in, hostile_node, 0x0300, ctr.get(), &c, 0x0043_0000, 0) {
                                net.inject(0, alien_addr(0), bytes);
                            }
                        } else {
                            k += 1;
                        }
                    }
                    let new: Vec<Vec<u8>> = net.with_tap(|t| {
                        let v = t.sent.iter().skip(seen).filter(|s| s.src == 0 && s.dst.is_none()).map(|s| s.bytes.clone()).collect();
                        seen = t.sent.len();
                        v
                    });
                    for b in new {
                        if let Some(w) = vh::sim::node::decode_wire(&b, Some(&hk_out), dev_node) {
                            // a request of a device-initiated exchange: payload = [5, index, ..]
                            if w.sess_id == 0x0400 && w.initiator && w.proto_id == APP && w.payload.len() >= 2 && w.payload[0] == 5 {
                                let di = w.payload[1] as usize;
                                if !ids.borrow().iter().any(|(i, _)| *i == di) {
                                    ids.borrow_mut().push((di, w.exch_id));
                                    if let Some(d) = dev_init.get(di) {
                                        for (delay, initiator, reliable) in &d.collide {
                                            due.push((
                                                clock::now() + *delay as u64 * MS,
                                                Crafted {
                                                    t_ms: 0,
                                                    exch_id: w.exch_id,
                                                    initiator: *initiator,
                                                    reliable: *reliable,
                                                    ack: false,
                                                    kind: CraftKind::App(Beh::Echo),
                                                },
                                            ));
                                        }
                                    }
                                }
                            }
                            if w.reliable && w.sess_id == 0x0400 {
                                ctr.set(ctr.get() + 1);
                                let c = Crafted {
                                    t_ms: 0,
                                    exch_id: w.exch_id,
                                    initiator: !w.initiator,
                                    reliable: false,
                                    ack: true,
                                    kind: CraftKind::StandaloneAck,
                                };
                                if let Some(bytes) = craft(&hk_in, hostile_node, 0x0300, ctr.get(), &c, w.ctr, 0) {
                                    net.inject(0, alien_addr(0), bytes);
                                }
                            }
                        }
                    }
                }
            });
        }

        let t0 = clock::now();
        // timeline: honest exchange starts + crafted injections
        #[derive(Clone)]
        enum Ev {
            Honest(usize),
            Craft(usize),
            DevInit(usize),
        }
        let mut evs: Vec<(u64, Ev)> = Vec::new();
        for (i, h) in case.honest.iter().enumerate() {
            evs.push((t0 + h.start_ms as u64 * MS, Ev::Honest(i)));
        }
        for (i, c) in case.crafted.iter().enumerate() {
            evs.push((t0 + c.t_ms as u64 * MS, Ev::Craft(i)));
        }
        for (i, d) in case.dev_init.iter().enumerate() {
            evs.push((t0 + d.start_ms as u64 * MS, Ev::DevInit(i)));
        }
        evs.sort_by_key(|e| e.0);
        for (t, ev) in evs {
            if ex.run_until(t, || false) == Stop::PollLimit {
                return Case::inconclusive("poll watchdog");
            }
            match ev {
                Ev::Honest(i) => {
                    let h = &case.honest[i];
                    let s = &honest_sessions[vh::util::pick((h.session as u16) << 8, honest_sessions.len())];
                    let (m, c, log) = (&ctrl, &cc, &client_log);
                    let sid = s.a_internal;
                    let tag = i as u8;
                    ex.spawn(&format!("client{i}"), async move {
                        match Exchange::initiate_for_session(m, c, sid) {
                            Ok(exch) => client(exch, tag, h, log).await,
                            Err(e) => log.borrow_mut().push(ClientRec {
                                tag,
                                seq: 0,
                                t_sent: clock::now(),
                                outcome: Some(Outcome::Error {
                                    t: clock::now(),
                                    code: format!("initiate {:?}", e.code()),
                                }),
                            }),
                        }
                    });
                }
                Ev::DevInit(i) => {
                    let d = &case.dev_init[i];
                    let (m, c, log) = (&device, &cd, &devinit_log);
                    ex.spawn(&format!("devinit{i}"), async move {
                        let Ok(mut exch) = Exchange::initiate_for_session(m, c, hostile_sid) else { return };
                        let req = payload(5, i as u8, 0, Beh::Echo);
                        if exch.send(MessageMeta::new(APP, OP_REQ, true), &req).await.is_err() {
                            return;
                        }
                        let until = clock::now() + d.listen_ms as u64 * MS;
                        loop {
                            let left = until.saturating_sub(clock::now());
                            if left == 0 {
                                break;
                            }
                            match select(exch.recv(), Timer::after(Duration::from_micros(left))).await {
                                Either::First(Ok(rx)) => {
                                    let meta = rx.meta();
                                    let p = rx.payload();
                                    let parsed = parse_beh(p);
                                    log.borrow_mut().push((
                                        i,
                                        parsed.map(|x| x.0).unwrap_or(0xff),
                                        parsed.map(|x| x.1 as u16 | ((x.2 as u16) << 8)).unwrap_or(0xffff),
                                        meta.proto_opcode,
                                        meta.proto_id,
                                    ));
                                }
                                Either::First(Err(_)) | Either::Second(_) => break,
                            }
                        }
                    });
                }
                Ev::Craft(i) => {
                    let c = &case.crafted[i];
                    hostile_ack_ctr.set(hostile_ack_ctr.get() + 1);
                    let hostile_ctr = hostile_ack_ctr.get();
                    if let CraftKind::StrayUnsecured { to_ctrl, status } = c.kind {
                        if let Some(bytes) = craft_unsecured(hostile_ctr, c.exch_id, status) {
                            if to_ctrl {
                                net.inject(1, node_addr(0), bytes);
                            } else {
                                net.inject(0, node_addr(1), bytes);
                            }
                        }
                    } else if let Some(bytes) = craft(&hk_in, hostile_node, 0x0300, hostile_ctr, c, 0x0042_0000 + i as u32, 100 + i as u8) {
                        net.inject(0, alien_addr(0), bytes);
                    }
                }
            }
            let live: usize = sessions(&device).iter().map(|s| s.exchanges.iter().flatten().count()).sum();
            max_concurrent = max_concurrent.max(live);
        }
        // let everything play out: client rounds (<= 3 x (3 s late + ladder)) and holds
        if ex.run_for(70 * SEC) == Stop::PollLimit {
            return Case::inconclusive("poll watchdog");
        }

        // D4: probe on a fresh exchange of an honest session
        {
            let (m, c, log) = (&ctrl, &cc, &probe_log);
            // a fresh session: the honest ones may have been marked expired by the controller
            // after a transmit timeout, which is by design
            let sid = match plant_pair(&ctrl, &cc, node_addr(1), &device, &cd, node_addr(0), SessKind::Case, 0x0150, 0x0250, 77) {
                Ok(p) => p.a_internal,
                Err(e) => return Case::inconclusive(format!("plant probe session: {e:?}")),
            };
            let h = HonestExch {
                session: 0,
                start_ms: 0,
                beh: Beh::Echo,
                rounds: 1,
            };
            let hp: &'static HonestExch = Box::leak(Box::new(h));
            let t = ex.spawn("probe", async move {
                match Exchange::initiate_for_session(m, c, sid) {
                    Ok(exch) => client(exch, 0xEE, hp, log).await,
                    Err(e) => log.borrow_mut().push(ClientRec {
                        tag: 0xEE,
                        seq: 0,
                        t_sent: clock::now(),
                        outcome: Some(Outcome::Error {
                            t: clock::now(),
                            code: format!("initiate {:?}", e.code()),
                        }),
                    }),
                }
            });
            let dl = clock::now() + 30 * SEC;
            ex.run_until(dl, || probe_log.borrow().iter().any(|r| r.outcome.is_some()));
            ex.kill(t);
        }
        // D5 / D6: a long quiet period
        if ex.run_for(40 * SEC) == Stop::PollLimit {
            return Case::inconclusive("poll watchdog");
        }
        let before = net.sent_count();
        ex.run_for(30 * SEC);
        datagrams_at_end = net.sent_count();
        if net.storm() {
            verdict = Some(Case::fail("D6:datagram-storm", "more than 50000 datagrams were sent".to_string()));
        } else if datagrams_at_end > before {
            let last: Vec<String> = net.with_tap(|t| {
                t.sent
                    .iter()
                    .skip(before)
                    .take(6)
                    .map(|s| format!("t={} node{}->{:?} {} bytes", s.t_us, s.src, s.dst, s.bytes.len()))
                    .collect()
            });
            verdict = Some(Case::fail(
                "D6:traffic-never-stops",
                format!("{} datagram(s) were still sent more than 110 s after the last input: {last:?}", datagrams_at_end - before),
            ));
        }
        if verdict.is_none() {
            for s in sessions(&device) {
                for e in s.exchanges.iter().flatten() {
                    verdict.get_or_insert_with(|| {
                        Case::fail(
                            "D5:exchange-slot-not-freed",
                            format!("device session {} still has exchange {:#x} (initiator={}, state={}) 140 s after the last input", s.local_sess_id, e.exch_id, e.initiator, e.state),
                        )
                    });
                }
            }
        }
    }
    if std::env::var("VH_DEBUG").is_ok() {
        eprintln!("client log: {:#?}", client_log.borrow());
        eprintln!("probe log: {:#?}", probe_log.borrow());
        eprintln!("device log: {:#?}", dev_log.borrow());
        eprintln!("ctrl sessions: {:?}", sessions(&ctrl).iter().map(|s| (s.local_sess_id, s.expired, s.exchanges.len())).collect::<Vec<_>>());
        eprintln!("dev sessions: {:?}", sessions(&device).iter().map(|s| (s.local_sess_id, s.expired, s.exchanges.len())).collect::<Vec<_>>());
        net.with_tap(|t| for s in t.sent.iter().take(200) { eprintln!("  t={} {}->{:?} len={} {:?}", s.t_us - 1_000_000_000, s.src, s.dst, s.bytes.len(), vh::sim::node::decode_plain(&s.bytes)); });
    }
    if let Some(v) = verdict {
        return v;
    }

    // ---------------------------------------------------------------- oracle on the logs
    let dl = dev_log.borrow();
    // D1: one handler invocation sees one (origin, tag) only, with increasing seq and only
    // application requests
    let mut per_inv: std::collections::BTreeMap<usize, (u8, u8, i32)> = Default::default();
    for o in dl.iter() {
        let is_ack = o.proto == PROTO_ID_SECURE_CHANNEL && o.opcode == OpCode::MRPStandAloneAck as u8;
        let opens = !per_inv.contains_key(&o.invocation);
        if is_ack || (opens && (o.proto != APP || o.opcode != OP_REQ)) {
            // a stand-alone ack is never handed to an application; an exchange is only ever
            // opened by a request (a status report may arrive on an existing exchange)
            return Case::fail(
                if is_ack { "D2:standalone-ack-reached-a-handler" } else { "D2:exchange-opened-by-non-request" },
                format!("handler invocation {} was handed proto {:#x} opcode {} as {} message", o.invocation, o.proto, o.opcode, if opens { "first" } else { "later" }),
            );
        }
        if o.proto != APP || o.opcode != OP_REQ {
            continue;
        }
        match per_inv.get_mut(&o.invocation) {
            None => {
                per_inv.insert(o.invocation, (o.origin, o.tag, o.seq as i32));
            }
            Some((origin, tag, last)) => {
                if *origin != o.origin || *tag != o.tag {
                    return Case::fail(
                        "D1:message-of-another-exchange",
                        format!("handler invocation {} serving exchange (origin {}, tag {}) was handed a message of (origin {}, tag {})", o.invocation, origin, tag, o.origin, o.tag),
                    );
                }
                if o.origin == 1 && (o.seq as i32) <= *last {
                    return Case::fail(
                        "D1:duplicate-or-reordered-message",
                        format!("handler invocation {} saw seq {} after seq {}", o.invocation, o.seq, last),
                    );
                }
                *last = o.seq as i32;
            }
        }
    }
    // D1 for the exchanges the device opened itself: such an exchange is only ever handed
    // messages that carry its exchange id with the initiator flag CLEAR (answers). A message with
    // the initiator flag set and the same id belongs to an exchange the peer opened: it must go
    // to a fresh responder exchange (a handler), never into the device's initiator exchange.
    {
        let ids = devinit_ids.borrow();
        for (di, origin, claimed, opcode, proto) in devinit_log.borrow().iter() {
            let own = ids.iter().find(|(i, _)| i == di).map(|(_, id)| *id);
            if *proto == APP && *origin == 3 {
                return Case::fail(
                    "D1:peer-initiated-message-reached-own-initiator-exchange",
                    format!("the exchange the device initiated (id {own:?}) was handed a message with the initiator flag set (claimed exchange id {claimed:#x}, opcode {opcode})"),
                );
            }
            if *proto == APP && (*origin != 4 || Some(*claimed) != own) {
                return Case::fail(
                    "D1:message-of-another-exchange",
                    format!("the exchange the device initiated (id {own:?}) was handed a message of origin {origin} exchange id {claimed:#x}"),
                );
            }
            if *proto == PROTO_ID_SECURE_CHANNEL && *opcode == OpCode::MRPStandAloneAck as u8 {
                return Case::fail("D2:standalone-ack-reached-a-handler", "a stand-alone ack was handed to the device's own initiator exchange".to_string());
            }
        }
        if !devinit_log.borrow().is_empty() {
            labels.push("dev-initiated-got-answer".into());
        }
        if !ids.is_empty() {
            labels.push("dev-initiated".into());
        }
    }
    // D2: a message of the hostile peer with the initiator flag clear is an answer; it never
    // reaches a handler (a responder exchange), whether or not the device has an initiator
    // exchange with that id
    if let Some(o) = dl.iter().find(|o| o.origin == 4) {
        return Case::fail(
            "D2:answer-to-unknown-exchange-delivered",
            format!("a crafted message with the initiator flag clear (exchange id {:#x}) reached handler invocation {}", o.tag as u16 | ((o.seq as u16) << 8), o.invocation),
        );
    }
    // D4: every honest request to a handler that answers got its answer or an error; never a
    // wrong answer; the probe was answered.
    let cl = client_log.borrow();
    for r in cl.iter() {
        let h = &case.honest[r.tag as usize];
        match &r.outcome {
            Some(Outcome::WrongResponse { got }) => {
                return Case::fail(
                    "D1:client-got-foreign-response",
                    format!("controller exchange tag {} seq {} received {:?}", r.tag, r.seq, got),
                )
            }
            Some(Outcome::Timeout) | None => {
                let answers = match h.beh {
                    Beh::Echo | Beh::EchoLate(_) => true,
                    Beh::DropAfterFirst => r.seq == 0,
                    _ => false,
                };
                // the handler pool may have been exhausted by Hold behaviours: then the request
                // is legitimately refused/closed — but that surfaces as an error, not as silence
                let collisions: usize = case.dev_init.iter().map(|d| d.collide.len()).sum();
                if answers && case.handlers as usize > case.honest.len() + case.crafted.len() + collisions {
                    return Case::fail(
                        "D4:request-silently-lost",
                        format!("controller exchange tag {} seq {} (behaviour {:?}) got neither a response nor an error within 45 s", r.tag, r.seq, h.beh),
                    );
                }
                labels.push("client-timeout".into());
            }
            Some(Outcome::Error { .. }) => labels.push("client-error".into()),
            Some(Outcome::Response { t }) => {
                let _ = t;
                labels.push("client-response".into());
            }
        }
    }
    let pl = probe_log.borrow();
    match pl.first().and_then(|r| r.outcome.clone()) {
        Some(Outcome::Response { .. }) => {}
        other => {
            return Case::fail(
                "D4:probe-not-answered",
                format!("70 s after the last disturbance a fresh request on an honest session was not answered within 30 s: {other:?}"),
            )
        }
    }
    if !case.crafted.is_empty() {
        labels.push("crafted".into());
    }
    if case.crafted.iter().any(|c| c.kind == CraftKind::CloseSession) {
        labels.push("close-session".into());
    }
    Case::pass(max_concurrent >= 2 && !case.crafted.is_empty()).labels(labels)
}

// ------------------------------------------------------------------------------------------
// unaccepted: messages nobody picks up. The device runs its transport but NO responder task:
// every exchange a peer opens stays unaccepted. The statement: such a message is discarded
// (after the accept deadline), its exchange is closed - with an acknowledgement if one was
// requested - and subsequent traffic of other exchanges keeps flowing.

#[derive(Debug, Clone, Serialize, Deserialize)]
struct UnacceptedCase {
    /// (time ms, exchange id, reliable) of the requests opening exchanges nobody accepts
    opens: Vec<(u16, u16, bool)>,
    /// the device application opens an exchange of its own that long after the last of them
    gap_ms: u16,
    /// the peer's answer to it is sent that long after the request was seen
    answer_delay_ms: u16,
    answer_reliable: bool,
    sched: Option<u64>,
    seed: u32,
}

fn unaccepted_strategy() -> impl Strategy<Value = UnacceptedCase> {
    (
        prop::collection::vec((0u16..3000, 1u16..40, any::<bool>()), 1..5),
        2500u16..6000,
        0u16..800,
        any::<bool>(),
        prop_oneof![1 => Just(None), 3 => any::<u64>().prop_map(Some)],
        any::<u32>(),
    )
        .prop_map(|(opens, gap_ms, answer_delay_ms, answer_reliable, sched, seed)| UnacceptedCase {
            opens,
            gap_ms,
            answer_delay_ms,
            answer_reliable,
            sched,
            seed,
        })
}

fn check_unaccepted(case: &UnacceptedCase) -> Case {
    vh::sim::reset_universe();
    let net = Net::new(1);
    let cd = mk_crypto(case.seed);
    let device = new_matter(5540);
    let hostile_node: u64 = 0x0000_0000_00BA_D001;
    let dev_node: u64 = 0x0000_0000_0001_B66A;
    let hk_in = [0x5au8; 16];
    let hk_out = [0xa5u8; 16];
    let hostile_sid = match plant_half(&device, &cd, SessKind::Case, dev_node, hostile_node, 0x0300, 0x0400, alien_addr(0), &hk_in, &hk_out, 1, NocCatIds::default()) {
        Ok(id) => id,
        Err(e) => return Case::inconclusive(format!("plant: {e:?}")),
    };
    // distinct exchange ids, in time order
    let mut opens = case.opens.clone();
    opens.sort();
    let mut seen_ids = Vec::new();
    opens.retain(|(_, id, _)| {
        let fresh = !seen_ids.contains(id);
        seen_ids.push(*id);
        fresh
    });
    let last_open_ms = opens.iter().map(|o| o.0).max().unwrap_or(0) as u64;
    let ctr = std::cell::Cell::new(0x0200_0000u32);
    // counters of the crafted requests, by exchange id
    let mut sent_ctr: Vec<(u16, u32, bool)> = Vec::new();
    let got_answer: RefCell<Option<u64>> = RefCell::new(None);
    let app_error: RefCell<Option<String>> = RefCell::new(None);
    let mut verdict: Option<Case> = None;
    {
        let mut ex = Exec::new(match case.sched {
            None => Sched::Fifo,
            Some(s) => Sched::Seeded(s),
        });
        ex.add_time_source(&net);
        ex.spawn("dev.run", async {
            let _ = device.run(&cd, net.end(0), net.end(0), NoNetwork).await;
        });
        // the peer: acknowledges what it is sent and answers the device's own request
        {
            let (net, ctr) = (&net, &ctr);
            let (delay, rel) = (case.answer_delay_ms as u64, case.answer_reliable);
            ex.spawn("peer", async move {
                let mut seen = 0usize;
                let mut due: Vec<(u64, Crafted)> = Vec::new();
                let mut answered = false;
                loop {
                    Timer::after(Duration::from_millis(10)).await;
                    let now = clock::now();
                    let mut k = 0;
                    while k < due.len() {
                        if due[k].0 <= now {
                            let (_, c) = due.remove(k);
                            ctr.set(ctr.get() + 1);
                            if let Some(bytes) = craft(&hk_in, hostile_node, 0x0300, ctr.get(), &c, 0, 0) {
                                net.inject(0, alien_addr(0), bytes);
                            }
                        } else {
                            k += 1;
                        }
                    }
                    let new: Vec<Vec<u8>> = net.with_tap(|t| {
                        let v = t.sent.iter().skip(seen).filter(|s| s.src == 0).map(|s| s.bytes.clone()).collect();
                        seen = t.sent.len();
                        v
                    });
                    for b in new {
                        let Some(w) = vh::sim::node::decode_wire(&b, Some(&hk_out), dev_node) else { continue };
                        if w.sess_id != 0x0400 {
                            continue;
                        }
                        if w.initiator && w.proto_id == APP && !answered {
                            answered = true;
                            due.push((
                                clock::now() + delay * MS,
                                Crafted { t_ms: 0, exch_id: w.exch_id, initiator: false, reliable: rel, ack: false, kind: CraftKind::App(Beh::Echo) },
                            ));
                        }
                        if w.reliable {
                            ctr.set(ctr.get() + 1);
                            let c = Crafted { t_ms: 0, exch_id: w.exch_id, initiator: !w.initiator, reliable: false, ack: true, kind: CraftKind::StandaloneAck };
                            if let Some(bytes) = craft(&hk_in, hostile_node, 0x0300, ctr.get(), &c, w.ctr, 0) {
                                net.inject(0, alien_addr(0), bytes);
                            }
                        }
                    }
                }
            });
        }
        let t0 = clock::now();
        for (t_ms, exch_id, reliable) in &opens {
            if ex.run_until(t0 + *t_ms as u64 * MS, || false) == Stop::PollLimit {
                return Case::inconclusive("poll watchdog");
            }
            ctr.set(ctr.get() + 1);
            let c = Crafted { t_ms: 0, exch_id: *exch_id, initiator: true, reliable: *reliable, ack: false, kind: CraftKind::App(Beh::Echo) };
            if let Some(bytes) = craft(&hk_in, hostile_node, 0x0300, ctr.get(), &c, 0, 0) {
                sent_ctr.push((*exch_id, ctr.get(), *reliable));
                net.inject(0, alien_addr(0), bytes);
            }
        }
        if ex.run_until(t0 + (last_open_ms + case.gap_ms as u64) * MS, || false) == Stop::PollLimit {
            return Case::inconclusive("poll watchdog");
        }
        // subsequent traffic of another exchange: the device's own request and its answer
        {
            let (m, c, got, err) = (&device, &cd, &got_answer, &app_error);
            ex.spawn("dev.app", async move {
                let mut exch = match Exchange::initiate_for_session(m, c, hostile_sid) {
                    Ok(e) => e,
                    Err(e) => {
                        *err.borrow_mut() = Some(format!("initiate: {:?}", e.code()));
                        return;
                    }
                };
                if let Err(e) = exch.send(MessageMeta::new(APP, OP_REQ, true), &payload(5, 0, 0, Beh::Echo)).await {
                    *err.borrow_mut() = Some(format!("send: {:?}", e.code()));
                    return;
                }
                let outcome = match select(exch.recv(), Timer::after(Duration::from_secs(20))).await {
                    Either::First(Ok(rx)) => {
                        if parse_beh(rx.payload()).map(|x| x.0) == Some(4) {
                            Ok(())
                        } else {
                            Err("received something else than the answer".to_string())
                        }
                    }
                    Either::First(Err(e)) => Err(format!("recv: {:?}", e.code())),
                    Either::Second(_) => Err("no answer within 20 s".to_string()),
                };
                match outcome {
                    Ok(()) => *got.borrow_mut() = Some(clock::now()),
                    Err(e) => *err.borrow_mut() = Some(e),
                }
                drop(exch);
            });
        }
        if ex.run_for(30 * SEC) == Stop::PollLimit {
            return Case::inconclusive("poll watchdog");
        }
        if got_answer.borrow().is_none() {
            verdict = Some(Case::fail(
                "U1:traffic-blocked-behind-unaccepted-message",
                format!(
                    "{} request(s) nobody accepts were received (the last one {} ms earlier, reliable flags {:?}); the device's own exchange then failed: {:?}",
                    opens.len(),
                    case.gap_ms,
                    opens.iter().map(|o| o.2).collect::<Vec<_>>(),
                    app_error.borrow()
                ),
            ));
        }
        if verdict.is_none() {
            ex.run_for(60 * SEC);
            for s in sessions(&device) {
                for e in s.exchanges.iter().flatten() {
                    verdict.get_or_insert_with(|| {
                        Case::fail(
                            "U2:unaccepted-exchange-never-closed",
                            format!("exchange {:#x} (initiator={}, state={}) still occupies a slot 90 s after the message nobody accepted", e.exch_id, e.initiator, e.state),
                        )
                    });
                }
            }
        }
    }
    if let Some(v) = verdict {
        return v;
    }
    // U3: a request that asked for an acknowledgement is closed with one (or with a session close)
    let dev_sent: Vec<vh::sim::node::Wire> = net.with_tap(|t| t.sent.iter().filter(|s| s.src == 0).filter_map(|s| vh::sim::node::decode_wire(&s.bytes, Some(&hk_out), dev_node)).collect());
    let session_alive = sessions(&device).iter().any(|s| s.id == hostile_sid);
    for (exch_id, c, reliable) in &sent_ctr {
        if *reliable && session_alive && !dev_sent.iter().any(|w| w.ack == Some(*c)) {
            return Case::fail(
                "U3:unaccepted-reliable-message-never-acknowledged",
                format!("the request on exchange {exch_id:#x} (counter {c:#x}) asked for an acknowledgement; nobody accepted it and it was never acknowledged"),
            );
        }
    }
    let mut labels = vec![format!("opens={}", opens.len())];
    if opens.iter().any(|o| !o.2) {
        labels.push("unreliable-open".into());
    }
    if opens.iter().any(|o| o.2) {
        labels.push("reliable-open".into());
    }
    Case::pass(true).labels(labels)
}

fn main() {
    vh::util::init_stderr_log();
    let mut run = Run::new(
        "C10",
        "exploration",
        "a device with 2-4 handler tasks and generated per-exchange behaviours (echo, echo late, silent, hold, drop after the first answer) serves 1-4 concurrent multi-round exchanges of an honest controller on 1-2 planted sessions while an authenticated third peer injects 0-11 crafted secured messages (arbitrary exchange id, initiator flag, R/A flags; application requests, stand-alone acks, status reports, CloseSession) at generated instants; generated poll order. Second sub-check (unaccepted): a device without any responder task receives 1-4 requests opening exchanges nobody accepts (reliable or not), then - 2.5-6 s after the last - opens an exchange of its own whose answer must arrive; afterwards no exchange slot stays occupied and every request that asked for an acknowledgement got one. Non-trivial (routing): at least two exchanges were alive on the device at the moment of a disturbance and at least one crafted message was injected; distinct = distinct serialized case",
    );
    run.assume("the hostile peer is authenticated (it owns the keys of its own session); its traffic is crafted by the harness with PacketHdr::encode and increasing counters");
    run.assume("'never wedges' is decided as bounded virtual time: a probe request 70 s after the last input must be answered within 30 s, all traffic must have stopped 110 s after the last input and every exchange slot of the device must be free 140 s after it");
    run.assume("a request may legitimately stay unanswered (timeout) when the behaviours in play can occupy every handler task; it must never receive a foreign response");
    let n = run.cases(12_000, 400_000);
    run.prop("routing", n, case_strategy, check);
    let n = run.cases(4_000, 150_000);
    run.prop("unaccepted", n, unaccepted_strategy, check_unaccepted);
    run.finish();
}
