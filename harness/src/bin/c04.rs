//! C04 — A message counter is accepted at most once per secure peer; newer ones always.
//!
//! Oracle: a reference model written from the property statement (the set of accepted values
//! and its maximum), compared with `RxCtrState::post_recv` / `GroupCtrStore::post_recv` on
//! every step of generated histories, in both directions. Plus an exhaustive sweep of all
//! (16-bit bitmap, distance -20..=20) one-step transitions followed by a probe of every
//! neighbouring value.

use std::collections::{BTreeSet, HashMap};

use proptest::prelude::*;
use serde::{Deserialize, Serialize};

use rs_matter::transport::session::verif::verif_new_session_rx_state;
use rs_matter::transport::verif_dedup::{GroupCtrStore, RxCtrState};

use vh::{Case, Run};

const WINDOW: u32 = 16;

#[derive(Debug, Clone, Serialize, Deserialize)]
enum Step {
    /// Value relative to the highest value accepted so far.
    Rel(i32),
    /// Absolute value.
    Abs(u32),
}

#[derive(Debug, Clone, Serialize, Deserialize)]
struct UnicastHistory {
    first: u32,
    steps: Vec<Step>,
}

fn interesting_u32() -> impl Strategy<Value = u32> {
    prop_oneof![
        4 => prop::sample::select(vec![
            0u32, 1, 2, 15, 16, 17, 18, 31, 32, 33,
            0x7fff_ffff - 1, 0x7fff_ffff, 0x8000_0000, 0x8000_0001,
            0x0fff_ffff, 0x1000_0000,
            u32::MAX - 17, u32::MAX - 16, u32::MAX - 15, u32::MAX - 2, u32::MAX - 1, u32::MAX,
        ]),
        2 => any::<u32>(),
        1 => 0u32..64,
        1 => (u32::MAX - 64)..=u32::MAX,
    ]
}

fn step() -> impl Strategy<Value = Step> {
    prop_oneof![
        6 => prop::sample::select(vec![-18i32, -17, -16, -15, -14, -3, -2, -1, 0, 1, 2, 3, 14, 15, 16, 17, 18, 33])
            .prop_map(Step::Rel),
        4 => (-40i32..=40).prop_map(Step::Rel),
        1 => any::<i32>().prop_map(Step::Rel),
        1 => interesting_u32().prop_map(Step::Abs),
    ]
}

fn unicast_history() -> impl Strategy<Value = UnicastHistory> {
    (interesting_u32(), prop::collection::vec(step(), 0..40))
        .prop_map(|(first, steps)| UnicastHistory { first, steps })
}

/// Reference model of one secure-unicast (non-rollover) receive window.
#[derive(Default)]
struct Model {
    accepted: BTreeSet<u32>,
}

#[derive(Debug, PartialEq, Eq, Clone, Copy)]
enum Expect {
    Accept,
    Reject,
    /// The statement does not say (only used for unsecured sessions after a restart).
    Either,
}

impl Model {
    fn max(&self) -> Option<u32> {
        self.accepted.iter().next_back().copied()
    }

    fn expect_secure(&self, v: u32) -> (Expect, &'static str) {
        match self.max() {
            None => (Expect::Accept, "first value of the session"),
            Some(max) => {
                if v > max {
                    (Expect::Accept, "greater than every accepted value")
                } else if v == max {
                    (Expect::Reject, "equal to the highest accepted value")
                } else if max - v <= WINDOW {
                    if self.accepted.contains(&v) {
                        (Expect::Reject, "inside the window, already accepted")
                    } else {
                        (Expect::Accept, "inside the window, not accepted yet")
                    }
                } else {
                    (Expect::Reject, "older than the receive window")
                }
            }
        }
    }
}

fn value_of(step: &Step, max: Option<u32>) -> u32 {
    match step {
        Step::Abs(v) => *v,
        Step::Rel(d) => max.unwrap_or(0).wrapping_add(*d as u32),
    }
}

fn check_unicast_secure(h: &UnicastHistory) -> Case {
    let mut sut = verif_new_session_rx_state();
    let mut model = Model::default();
    let mut jumped = false;
    let mut nontrivial = false;
    let mut labels = Vec::new();

    let mut values = vec![h.first];
    // Values are resolved against the *model's* maximum, so the history is meaningful
    // independently of what the implementation does.
    let mut tmp = Model::default();
    tmp.accepted.insert(h.first);
    for s in &h.steps {
        let v = value_of(s, tmp.max());
        values.push(v);
        // Track what the model would have accepted to keep "relative" steps relative.
        if matches!(tmp.expect_secure(v).0, Expect::Accept) {
            tmp.accepted.insert(v);
        }
    }

    for (i, v) in values.iter().copied().enumerate() {
        let (exp, why) = model.expect_secure(v);
        let max_before = model.max();
        let got = sut.post_recv(v, true, false);
        if let Some(max) = max_before {
            if v > max && v - max >= 2 {
                jumped = true;
                if v - max > WINDOW {
                    labels.push("jump>16");
                }
            }
            if v < max && max - v <= WINDOW && exp == Expect::Accept && jumped {
                nontrivial = true;
                labels.push("overtaken-in-window");
            }
        }
        match (exp, got) {
            (Expect::Accept, false) => {
                let sig = match max_before {
                    None => "secure-unicast:first-value-rejected".to_string(),
                    Some(max) if v > max => "secure-unicast:newer-rejected".to_string(),
                    Some(_) => "secure-unicast:unseen-in-window-rejected".to_string(),
                };
                return Case::fail(
                    sig,
                    format!(
                        "step {i}: value {v} ({why}; highest accepted so far {max_before:?}, accepted set {:?}) was rejected as duplicate; state={:?}",
                        tail(&model.accepted), sut.verif_state()
                    ),
                );
            }
            (Expect::Reject, true) => {
                let sig = if model.accepted.contains(&v) {
                    "secure-unicast:accepted-twice"
                } else {
                    "secure-unicast:older-than-window-accepted"
                };
                return Case::fail(
                    sig,
                    format!(
                        "step {i}: value {v} ({why}; highest accepted so far {max_before:?}) was accepted; state={:?}",
                        sut.verif_state()
                    ),
                );
            }
            _ => {}
        }
        if got {
            model.accepted.insert(v);
        }
    }
    Case::pass(nontrivial).labels(labels)
}

fn tail(s: &BTreeSet<u32>) -> Vec<u32> {
    s.iter().rev().take(20).copied().collect()
}

/// Unsecured sessions: the same rules, plus "a value behind the window is a restart of the
/// peer's counter and is accepted". What the window looks like right after a restart is not
/// stated, so values within 16 below a restart point are "either" until accepted.
fn check_unicast_unsecured(h: &UnicastHistory) -> Case {
    let mut sut = verif_new_session_rx_state();
    let mut accepted: BTreeSet<u32> = BTreeSet::new();
    let mut max: Option<u32> = None;
    let mut fuzzy: BTreeSet<u32> = BTreeSet::new();
    let mut restarts = 0;

    let mut values = vec![h.first];
    let mut m = h.first;
    for s in &h.steps {
        let v = value_of(s, Some(m));
        if v > m {
            m = v;
        }
        values.push(v);
    }

    for (i, v) in values.iter().copied().enumerate() {
        let exp = match max {
            None => Expect::Accept,
            Some(mx) => {
                if v > mx {
                    Expect::Accept
                } else if v == mx {
                    Expect::Reject
                } else if mx - v <= WINDOW {
                    if accepted.contains(&v) {
                        Expect::Reject
                    } else if fuzzy.contains(&v) {
                        Expect::Either
                    } else {
                        Expect::Accept
                    }
                } else {
                    Expect::Accept // restart
                }
            }
        };
        let got = sut.post_recv(v, false, false);
        match (exp, got) {
            (Expect::Accept, false) => {
                return Case::fail(
                    "unsecured:acceptable-rejected",
                    format!("step {i}: value {v} with max {max:?} rejected; state={:?}", sut.verif_state()),
                )
            }
            (Expect::Reject, true) => {
                return Case::fail(
                    "unsecured:accepted-twice",
                    format!("step {i}: value {v} with max {max:?} accepted twice; state={:?}", sut.verif_state()),
                )
            }
            _ => {}
        }
        if got {
            match max {
                Some(mx) if v < mx && mx - v > WINDOW => {
                    // restart: forget history
                    restarts += 1;
                    accepted.clear();
                    fuzzy.clear();
                    for k in 1..=WINDOW {
                        if let Some(x) = v.checked_sub(k) {
                            fuzzy.insert(x);
                        }
                    }
                    max = Some(v);
                }
                Some(mx) if v > mx => max = Some(v),
                None => max = Some(v),
                _ => {}
            }
            accepted.insert(v);
            fuzzy.remove(&v);
        }
    }
    Case::pass(restarts > 0 && values.len() > 3).label(if restarts > 0 { "restart" } else { "no-restart" })
}

#[derive(Debug, Clone, Serialize, Deserialize)]
struct GroupStep {
    sender: u8,
    step: Step,
}

#[derive(Debug, Clone, Serialize, Deserialize)]
struct GroupHistory {
    /// first counter value used for each of the 24 potential senders
    bases: Vec<u32>,
    steps: Vec<GroupStep>,
}

fn group_history() -> impl Strategy<Value = GroupHistory> {
    (
        prop::collection::vec(interesting_u32(), 24),
        prop::collection::vec(
            (
                prop_oneof![3 => 0u8..4, 2 => 0u8..18, 1 => 0u8..24],
                prop_oneof![
                    6 => prop::sample::select(vec![-18i32, -17, -16, -15, -2, -1, 0, 1, 2, 15, 16, 17, 18]).prop_map(Step::Rel),
                    3 => (-40i32..=40).prop_map(Step::Rel),
                    1 => prop::sample::select(vec![i32::MAX, i32::MAX - 1, i32::MIN, i32::MIN + 1]).prop_map(Step::Rel),
                    1 => any::<i32>().prop_map(Step::Rel),
                ],
            )
                .prop_map(|(sender, step)| GroupStep { sender, step }),
            1..120,
        ),
    )
        .prop_map(|(bases, steps)| GroupHistory { bases, steps })
}

struct GroupSender {
    /// *logical* (unwrapped, 64-bit) values accepted since the sender became tracked: a group
    /// counter legitimately rolls over, so the same 32-bit value names a new message after the
    /// counter advanced by 2^32
    accepted: BTreeSet<u64>,
    /// highest logical accepted value; its low 32 bits are the wire value
    max: u64,
    /// index of the last step that used this sender
    last_use: usize,
}

fn check_group(h: &GroupHistory) -> Case {
    let mut sut = GroupCtrStore::new();
    let mut senders: HashMap<u8, GroupSender> = HashMap::new();
    let mut evictions = 0;
    let mut wraps = 0;
    const BASE: u64 = 1 << 40;

    for (i, gs) in h.steps.iter().enumerate() {
        let fab = 1 + (gs.sender % 2);
        let node = 0x1000 + gs.sender as u64;

        // "tracked" iff fewer than 16 distinct other senders were used since its last use
        // (a 16-entry LRU table holds exactly the 16 most recently used keys).
        let tracked = senders.get(&gs.sender).map(|s| {
            let others = senders
                .iter()
                .filter(|(k, o)| **k != gs.sender && o.last_use > s.last_use)
                .count();
            others < 16
        });

        // (wire value, logical value if tracked, expectation, reason)
        let (v, logical, exp, why) = match (senders.get(&gs.sender), tracked) {
            (Some(s), Some(true)) => {
                let wire_max = s.max as u32;
                let v = value_of(&gs.step, Some(wire_max));
                let fwd = v.wrapping_sub(wire_max);
                let back = wire_max.wrapping_sub(v);
                if fwd == 0 {
                    (v, s.max, Expect::Reject, "equal to highest")
                } else if fwd <= i32::MAX as u32 {
                    if v < wire_max {
                        wraps += 1;
                    }
                    (v, s.max + fwd as u64, Expect::Accept, "ahead of highest (modular)")
                } else if back <= WINDOW {
                    let l = s.max - back as u64;
                    if s.accepted.contains(&l) {
                        (v, l, Expect::Reject, "in window, accepted before")
                    } else {
                        // in-window-unseen for group senders: the statement does not require
                        // acceptance (trust-first marks everything below the first value seen)
                        (v, l, Expect::Either, "in window, unseen")
                    }
                } else if back == 0x8000_0000 {
                    (v, 0, Expect::Either, "antipode")
                } else {
                    (v, 0, Expect::Reject, "older than the window")
                }
            }
            (Some(_), _) => {
                evictions += 1;
                let v = value_of(&gs.step, Some(h.bases[gs.sender as usize]));
                (v, 0, Expect::Accept, "sender was evicted: trust-first")
            }
            (None, _) => {
                let v = value_of(&gs.step, Some(h.bases[gs.sender as usize]));
                (v, 0, Expect::Accept, "new sender: trust-first")
            }
        };

        let got = sut.post_recv(fab, node, v);
        match (exp, got) {
            (Expect::Accept, false) => {
                return Case::fail(
                    "group:acceptable-rejected",
                    format!("step {i}: sender {} value {v} ({why}) rejected", gs.sender),
                )
            }
            (Expect::Reject, true) => {
                let sig = if why.starts_with("older") {
                    "group:older-than-window-accepted"
                } else {
                    "group:accepted-twice"
                };
                return Case::fail(
                    sig,
                    format!("step {i}: sender {} value {v} ({why}) accepted", gs.sender),
                );
            }
            _ => {}
        }

        match (senders.get_mut(&gs.sender), tracked) {
            (Some(s), Some(true)) => {
                s.last_use = i + 1;
                if got {
                    if logical > s.max {
                        s.max = logical;
                    }
                    s.accepted.insert(logical);
                }
            }
            _ => {
                let l = BASE + v as u64;
                let mut accepted = BTreeSet::new();
                accepted.insert(l);
                senders.insert(
                    gs.sender,
                    GroupSender {
                        accepted,
                        max: l,
                        last_use: i + 1,
                    },
                );
            }
        }
    }
    let mut c = Case::pass(evictions > 0 || wraps > 0);
    if evictions > 0 {
        c = c.label("eviction");
    }
    if wraps > 0 {
        c = c.label("rollover");
    }
    c
}

#[derive(Debug, Clone, Serialize, Deserialize)]
struct OneStep {
    max: u32,
    bitmap: u16,
    d: i32,
}

/// Exhaustive: from window state (max, bitmap) receive max+d; compare the verdict and then the
/// verdict of every neighbouring value from the resulting state with the set model.
fn check_one_step(c: &OneStep) -> Case {
    // The set of accepted values encoded by (max, bitmap): max itself and max-1-i for set bits.
    let mut model = Model::default();
    model.accepted.insert(c.max);
    for i in 0..16u32 {
        if c.bitmap & (1 << i) != 0 {
            model.accepted.insert(c.max - 1 - i);
        }
    }
    // values more than 16 below max are "older than the window": rejected whatever the set says
    let v = (c.max as i64 + c.d as i64) as u32;
    let mut sut = RxCtrState::verif_with(c.max, c.bitmap);
    let (exp, why) = model.expect_secure(v);
    let got = sut.post_recv(v, true, false);
    if (exp == Expect::Accept) != got {
        return Case::fail(
            if got { "one-step:wrongly-accepted" } else { "one-step:wrongly-rejected" },
            format!("state (max={}, bitmap={:#06x}), value max{:+}: expected {exp:?} ({why}), got accept={got}", c.max, c.bitmap, c.d),
        );
    }
    if got {
        model.accepted.insert(v);
    }
    let (m2, b2) = sut.verif_state();
    let new_max = model.max().unwrap();
    if m2 != new_max {
        return Case::fail(
            "one-step:max-wrong",
            format!("state (max={}, bitmap={:#06x}), value max{:+}: highest accepted should be {new_max}, state says {m2}", c.max, c.bitmap, c.d),
        );
    }
    for p in -19i64..=2 {
        let pv = (new_max as i64 + p) as u32;
        let (pexp, pwhy) = model.expect_secure(pv);
        let mut probe = RxCtrState::verif_with(m2, b2);
        let pgot = probe.post_recv(pv, true, false);
        if (pexp == Expect::Accept) != pgot {
            return Case::fail(
                if pgot { "one-step:then-wrongly-accepted" } else { "one-step:then-wrongly-rejected" },
                format!(
                    "state (max={}, bitmap={:#06x}) + value max{:+} -> (max={m2}, bitmap={b2:#06x}); then value newmax{p:+}: expected {pexp:?} ({pwhy}), got accept={pgot}",
                    c.max, c.bitmap, c.d
                ),
            );
        }
    }
    Case::pass(c.d != 0 && c.bitmap != 0xffff && c.bitmap != 0)
}

/// The counter verdicts of the node-level group reception scenario (`sim/grouprx.rs`).
fn check_node_group_rx(case: &vh::sim::grouprx::GrxCase) -> Case {
    use vh::sim::grouprx::{run, Class};
    let out = run(case);
    if let Some(why) = &out.inconclusive {
        return Case::inconclusive(why.clone());
    }
    match out.first(Class::Counter) {
        Some(f) => Case::fail(f.signature.clone(), f.detail.clone()),
        None => Case::pass(out.nontrivial).labels(out.labels.clone()),
    }
}

fn main() {
    vh::util::init_stderr_log();
    let mut run = Run::new(
        "C04",
        "exploration",
        "histories of received counter values (first value + up to 40 steps relative to the highest accepted value, weighted to the window edges -17..-15/+15..+17, 0, 2^31, 2^32-1) for secure unicast, unsecured unicast and up to 24 interleaved group senders on a 16-entry table; plus every (bitmap, distance -20..=20) one-step transition followed by probes of all neighbours. Non-trivial: an unseen value inside the window arrives after a forward jump (unicast), or an eviction / modular roll-over (group); distinct = distinct serialized history",
    );
    run.assume("the hook RxCtrState::verif_state/verif_with faithfully exposes (max_ctr, ctr_bitmap)");
    run.assume("the initial window of a session is the one Session::new builds (hook verif_new_session_rx_state)");

    let n = run.cases(300_000, 6_000_000);
    run.prop("unicast-secure", n, unicast_history, check_unicast_secure);
    let n = run.cases(100_000, 2_000_000);
    run.prop("unicast-unsecured", n, unicast_history, check_unicast_unsecured);
    let n = run.cases(60_000, 1_500_000);
    run.prop("group", n, group_history, check_group);

    let maxes: &[u32] = if run.is_thorough() {
        &[100, 21, 0x8000_0005, u32::MAX - 3]
    } else {
        &[100]
    };
    let mut items = Vec::new();
    for &max in maxes {
        for bitmap in 0..=u16::MAX {
            for d in -20i32..=20 {
                if (max as i64 + d as i64) < 0 || (max as i64 + d as i64) > u32::MAX as i64 {
                    continue;
                }
                items.push(OneStep { max, bitmap, d });
            }
        }
    }
    run.exhaustive("one-step-table", items, check_one_step);

    // node level: the counter check as the device's group receive path applies it
    run.assume("node-group-rx: only authenticated group data messages count as accepted; a sender is forgotten once 16 other senders were used after it (GroupCtrStore: LRU table of 16); control-flagged messages are outside the (data) counter statement");
    run.assume("node-group-rx: same scenario and generator as C03 node-group-rx (sim/grouprx.rs); a sender does not reuse a 32-bit counter value while the device still handles the earlier message carrying it; whether a refused duplicate refreshes the least-recently-used order of the tracked senders is left open (three-valued eviction model); findings made while or after a datagram arrived during the handling of an earlier message from the same address/node/session id carry the suffix ':handling-overlap'");
    let n = run.cases(40_000, 2_000_000);
    run.prop("node-group-rx", n, vh::sim::grouprx::grx_case, check_node_group_rx);

    run.finish();
}
