//! C05 — Access is granted exactly when the Matter access-control algorithm grants it.
//!
//! Sub-checks
//! * `decision-iff`    — generated fabric tables / entries / accessors / requests; the boolean of
//!                       `AccessReq::allow()` is compared (both directions) with a reference
//!                       decision written from the property statement and the privilege-granting
//!                       algorithm of the Matter Core specification ("set of granted privileges").
//! * `entry-iff`       — one stand-alone `AclEntry` (any fabric index incl. none / foreign):
//!                       `AclEntry::allow()` against the per-entry clause of the statement.
//! * `relational`      — model-free: fabric isolation, irrelevance of other fabrics, monotonicity
//!                       under entry removal, PASE always / unauthenticated never; with the
//!                       auxiliary-ACL feature on and off.
//! * `group-endpoint`  — `Accessor::is_endpoint_accessible` against "endpoint is a member of the
//!                       accessor's group in the accessor's fabric".
//! * `privilege-table` — exhaustive privilege x 2^9 access declarations x {read, write}.

use std::collections::BTreeSet;
use std::num::NonZeroU8;

use proptest::prelude::*;
use serde::{Deserialize, Serialize};

use rs_matter::acl::{AccessReq, Accessor, AccessorSubjects, AclEntry, AuthMode, Target};
use rs_matter::dm::devices::test::{TEST_DEV_ATT, TEST_DEV_COMM, TEST_DEV_DET};
use rs_matter::dm::{Access, DeviceType, Privilege};
use rs_matter::im::GenericPath;
use rs_matter::tlv::{FromTLV, TLVElement};
use rs_matter::Matter;

use vh::{Case, Run};

// ---------------------------------------------------------------------------------------------
// Case types
// ---------------------------------------------------------------------------------------------

#[derive(Debug, Clone, Copy, PartialEq, Eq, PartialOrd, Ord, Serialize, Deserialize)]
pub enum Mode {
    Pase,
    Case,
    Group,
}

#[derive(Debug, Clone, Copy, PartialEq, Eq, PartialOrd, Ord, Serialize, Deserialize)]
pub enum Priv {
    View,
    ProxyView,
    Operate,
    Manage,
    Administer,
}

pub const ALL_PRIVS: [Priv; 5] = [
    Priv::View,
    Priv::ProxyView,
    Priv::Operate,
    Priv::Manage,
    Priv::Administer,
];

#[derive(Debug, Clone, Copy, PartialEq, Eq, Serialize, Deserialize)]
pub enum Subj {
    /// A node id (CASE), group id (Group) or passcode id (PASE)
    Id(u64),
    /// A CASE authenticated tag: 16-bit identifier + 16-bit version
    Cat { id: u16, ver: u16 },
}

#[derive(Debug, Clone, Copy, PartialEq, Eq, Serialize, Deserialize)]
pub struct Tgt {
    pub endpoint: Option<u16>,
    pub cluster: Option<u32>,
    pub device_type: Option<u32>,
}

/// `None` = null list, `Some(vec![])` = empty (non-null) list.
pub type List<T> = Option<Vec<T>>;

#[derive(Debug, Clone, PartialEq, Eq, Serialize, Deserialize)]
pub struct Entry {
    pub privilege: Priv,
    pub mode: Mode,
    pub subjects: List<Subj>,
    pub targets: List<Tgt>,
}

#[derive(Debug, Clone, PartialEq, Eq, Serialize, Deserialize)]
pub struct GroupSpec {
    pub id: u16,
    pub endpoints: Vec<u16>,
    /// has auxiliary ACL (only meaningful with the auxiliary feature on)
    pub aux: bool,
}

#[derive(Debug, Clone, PartialEq, Eq, Serialize, Deserialize)]
pub struct FabricSpec {
    pub present: bool,
    pub entries: Vec<Entry>,
    /// distinct group ids by construction
    pub groups: Vec<GroupSpec>,
}

/// `fabrics[i]` describes fabric index `i + 1`.
#[derive(Debug, Clone, PartialEq, Eq, Serialize, Deserialize)]
pub struct World {
    pub fabrics: Vec<FabricSpec>,
}

#[derive(Debug, Clone, PartialEq, Eq, Serialize, Deserialize)]
pub struct Acc {
    /// `None` = unauthenticated (plain-text) session
    pub mode: Option<Mode>,
    pub fab: u8,
    /// node id / group id / passcode id
    pub id: u64,
    pub cats: Vec<(u16, u16)>,
}

#[derive(Debug, Clone, PartialEq, Eq, Serialize, Deserialize)]
pub struct Req {
    pub endpoint: u16,
    pub cluster: u32,
    pub leaf: u32,
    /// device types of the endpoint hosting the path
    pub device_types: Vec<u16>,
    /// false = read, true = write / invoke
    pub write: bool,
    /// raw bits of the element's `Access` declaration (9 bits)
    pub access: u16,
}

#[derive(Debug, Clone, Serialize, Deserialize)]
pub struct DecisionCase {
    pub world: World,
    pub acc: Acc,
    pub req: Req,
}

#[derive(Debug, Clone, Serialize, Deserialize)]
pub struct EntryCase {
    pub entry: Entry,
    /// fabric index stored in the entry (`0` = none)
    pub entry_fab: u8,
    pub acc: Acc,
    pub req: Req,
}

#[derive(Debug, Clone, Serialize, Deserialize)]
pub struct RelCase {
    pub world: World,
    pub acc: Acc,
    pub req: Req,
    pub aux: bool,
}

#[derive(Debug, Clone, Serialize, Deserialize)]
pub struct GroupCase {
    pub world: World,
    pub acc: Acc,
    pub endpoint: u16,
    pub aux: bool,
}

#[derive(Debug, Clone, Serialize, Deserialize)]
pub struct TableItem {
    pub privilege: Priv,
    pub access: u16,
    pub write: bool,
}

// ---------------------------------------------------------------------------------------------
// Reference model (written from the property statement / Matter Core spec, NOT from acl.rs)
// ---------------------------------------------------------------------------------------------

/// Privileges subsumed by a granted privilege (Matter Core spec, AccessControlEntryPrivilegeEnum:
/// Operate = View + ..., Manage = Operate + ..., Administer = Manage + ...; "ProxyView ...
/// implicitly grants View privileges"; the spec's granting algorithm adds ProxyView to what
/// Administer subsumes). `proxy_grants_view` selects between the spec reading and rs-matter's
/// documented "ProxyView grants nothing for non-proxy operations" reading; see [`combine`].
pub fn subsumed(p: Priv, proxy_grants_view: bool) -> &'static [Priv] {
    match p {
        Priv::View => &[Priv::View],
        Priv::ProxyView => {
            if proxy_grants_view {
                &[Priv::ProxyView, Priv::View]
            } else {
                &[Priv::ProxyView]
            }
        }
        Priv::Operate => &[Priv::Operate, Priv::View],
        Priv::Manage => &[Priv::Manage, Priv::Operate, Priv::View],
        Priv::Administer => &[
            Priv::Administer,
            Priv::Manage,
            Priv::Operate,
            Priv::ProxyView,
            Priv::View,
        ],
    }
}

/// What the element's access declaration requires for one operation.
#[derive(Debug, Clone, Copy, PartialEq, Eq)]
pub enum Need {
    /// The declaration does not list the operation at all: nothing can be granted.
    Unsupported,
    /// The declaration names no privilege applicable to the operation: nothing can be granted
    /// (documented: "there must be some required privilege for any object").
    NoneDeclared,
    /// Exactly this privilege is required.
    Level(Priv),
    /// A non-canonical declaration that two readings decode differently (`lo` by the
    /// "lowest named privilege" reading, `hi` by the two-letter "read X / write Y" reading):
    /// a grant of `hi` must allow, no grant of `lo` must deny, in between both are accepted.
    Ambiguous(Priv, Priv),
}

/// Decode the element's `Access` declaration. The declaration lists the operations the element
/// supports (READ / WRITE; invoke is WRITE) and names privileges with NEED_* flags: the privilege
/// required for an operation is the lowest one named that is applicable to the operation (View
/// is a read-only privilege: it is never a requirement for write / invoke). This is the encoding
/// documented by the constants (`RWVA` = read:View write:Administer, `WO` = O|M|A = Operate,
/// `RWVM`) and by the code generator.
pub fn need(decl: Access, write: bool) -> Need {
    let op = if write { Access::WRITE } else { Access::READ };
    if !decl.contains(op) {
        return Need::Unsupported;
    }
    let mut named: Vec<Priv> = Vec::new();
    if !write && decl.contains(Access::NEED_VIEW) {
        named.push(Priv::View);
    }
    if decl.contains(Access::NEED_OPERATE) {
        named.push(Priv::Operate);
    }
    if decl.contains(Access::NEED_MANAGE) {
        named.push(Priv::Manage);
    }
    if decl.contains(Access::NEED_ADMIN) {
        named.push(Priv::Administer);
    }
    let Some(&lo) = named.first() else {
        return Need::NoneDeclared;
    };
    if write && decl.contains(Access::READ) && named.len() == 2 {
        // {O,M} and {O,A} on a read+write element: never produced by the code generator nor by
        // the constants; could be meant as "read: first, write: second".
        let hi = named[1];
        let upward_closed = (lo, hi) == (Priv::Manage, Priv::Administer);
        if !upward_closed {
            return Need::Ambiguous(lo, hi);
        }
    }
    Need::Level(lo)
}

pub fn cat_value(id: u16, ver: u16) -> u64 {
    // Matter Core spec: a CASE Authenticated Tag as subject is the node id
    // 0xFFFF_FFFD_xxxx_yyyy with xxxx = identifier and yyyy = version.
    0xFFFF_FFFD_0000_0000u64 | ((id as u64) << 16) | ver as u64
}

pub fn subj_value(s: &Subj) -> u64 {
    match s {
        Subj::Id(v) => *v,
        Subj::Cat { id, ver } => cat_value(*id, *ver),
    }
}

pub fn ref_subject_match(e: &Entry, acc: &Acc) -> bool {
    match &e.subjects {
        None => true,
        Some(list) if list.is_empty() => true,
        Some(list) => list.iter().any(|s| match s {
            Subj::Id(v) => *v == acc.id,
            Subj::Cat { id, ver } => acc
                .cats
                .iter()
                .any(|(aid, aver)| aid == id && aver >= ver),
        }),
    }
}

pub fn ref_target_match(e: &Entry, req: &Req) -> bool {
    match &e.targets {
        None => true,
        Some(list) if list.is_empty() => true,
        Some(list) => list.iter().any(|t| {
            let ep = match t.endpoint {
                None => true,
                Some(ep) => ep == req.endpoint,
            };
            let cl = match t.cluster {
                None => true,
                Some(cl) => cl == req.cluster,
            };
            let dt = match t.device_type {
                None => true,
                Some(dt) => req.device_types.iter().any(|d| *d as u32 == dt),
            };
            ep && cl && dt
        }),
    }
}

#[derive(Debug, Clone, Copy, PartialEq, Eq)]
pub enum Expect {
    Allow,
    Deny,
    Either,
}

pub fn decide_with_granted(granted: &BTreeSet<Priv>, need: Need) -> Expect {
    match need {
        Need::Unsupported | Need::NoneDeclared => Expect::Deny,
        Need::Level(r) => {
            if granted.contains(&r) {
                Expect::Allow
            } else {
                Expect::Deny
            }
        }
        Need::Ambiguous(lo, hi) => {
            if granted.contains(&hi) {
                Expect::Allow
            } else if !granted.contains(&lo) {
                Expect::Deny
            } else {
                Expect::Either
            }
        }
    }
}

pub fn priv_ok(p: Priv, need: Need, proxy_grants_view: bool) -> Expect {
    let g: BTreeSet<Priv> = subsumed(p, proxy_grants_view).iter().copied().collect();
    decide_with_granted(&g, need)
}

/// Per-entry dimensions of the match (for the near-miss statistic).
pub struct Dims {
    pub mode: bool,
    pub subject: bool,
    pub target: bool,
    pub privilege: bool,
}

pub fn dims(e: &Entry, acc: &Acc, req: &Req, nd: Need) -> Dims {
    Dims {
        mode: Some(e.mode) == acc.mode,
        subject: ref_subject_match(e, acc),
        target: ref_target_match(e, req),
        privilege: priv_ok(e.privilege, nd, true) != Expect::Deny,
    }
}

/// The reference decision for a whole node.
pub fn ref_decide(world: &World, acc: &Acc, req: &Req, proxy_grants_view: bool) -> Expect {
    // Implicit administer grant of a passcode-authenticated commissioner.
    if acc.mode == Some(Mode::Pase) {
        return Expect::Allow;
    }
    let Some(mode) = acc.mode else {
        return Expect::Deny;
    };
    // Fabric index 0 = no fabric; the accessor's fabric has to exist.
    if acc.fab == 0 || acc.fab as usize > world.fabrics.len() {
        return Expect::Deny;
    }
    let fabric = &world.fabrics[acc.fab as usize - 1];
    if !fabric.present {
        return Expect::Deny;
    }
    let mut granted: BTreeSet<Priv> = BTreeSet::new();
    for e in &fabric.entries {
        if e.mode != mode {
            continue;
        }
        if !ref_subject_match(e, acc) {
            continue;
        }
        if !ref_target_match(e, req) {
            continue;
        }
        granted.extend(subsumed(e.privilege, proxy_grants_view).iter().copied());
    }
    decide_with_granted(&granted, need(Access::from_bits_truncate(req.access), req.write))
}

/// The reference decision for a single stand-alone entry (`entry_fab` 0 = entry without fabric).
pub fn ref_entry(e: &Entry, entry_fab: u8, acc: &Acc, req: &Req, proxy_grants_view: bool) -> Expect {
    if entry_fab == 0 || entry_fab != acc.fab {
        return Expect::Deny;
    }
    if Some(e.mode) != acc.mode {
        return Expect::Deny;
    }
    if !ref_subject_match(e, acc) || !ref_target_match(e, req) {
        return Expect::Deny;
    }
    priv_ok(
        e.privilege,
        need(Access::from_bits_truncate(req.access), req.write),
        proxy_grants_view,
    )
}

// ---------------------------------------------------------------------------------------------
// Driving the code under test (public API only)
// ---------------------------------------------------------------------------------------------

thread_local! {
    static MATTER: &'static Matter<'static> = Box::leak(Box::new(Matter::new(
        &TEST_DEV_DET,
        TEST_DEV_COMM,
        &TEST_DEV_ATT,
        0,
    )));
}

pub fn matter() -> &'static Matter<'static> {
    MATTER.with(|m| *m)
}

pub fn sut_privilege(p: Priv) -> Privilege {
    match p {
        Priv::View => Privilege::VIEW,
        Priv::ProxyView => Privilege::PROXYVIEW,
        Priv::Operate => Privilege::OPERATE,
        Priv::Manage => Privilege::MANAGE,
        Priv::Administer => Privilege::ADMIN,
    }
}

pub fn sut_mode(m: Mode) -> AuthMode {
    match m {
        Mode::Pase => AuthMode::Pase,
        Mode::Case => AuthMode::Case,
        Mode::Group => AuthMode::Group,
    }
}

/// AccessControlEntryStruct as Matter TLV (Privilege=1, AuthMode=2, Subjects=3, Targets=4;
/// AccessControlTargetStruct Cluster=0, Endpoint=1, DeviceType=2), hand-encoded.
pub fn entry_tlv(e: &Entry) -> Vec<u8> {
    let mut b = vec![0x15u8];
    let p = match e.privilege {
        Priv::View => 1u8,
        Priv::ProxyView => 2,
        Priv::Operate => 3,
        Priv::Manage => 4,
        Priv::Administer => 5,
    };
    let m = match e.mode {
        Mode::Pase => 1u8,
        Mode::Case => 2,
        Mode::Group => 3,
    };
    b.extend_from_slice(&[0x24, 1, p, 0x24, 2, m]);
    match &e.subjects {
        None => b.extend_from_slice(&[0x34, 3]),
        Some(list) => {
            b.extend_from_slice(&[0x36, 3]);
            for s in list {
                b.push(0x07);
                b.extend_from_slice(&subj_value(s).to_le_bytes());
            }
            b.push(0x18);
        }
    }
    match &e.targets {
        None => b.extend_from_slice(&[0x34, 4]),
        Some(list) => {
            b.extend_from_slice(&[0x36, 4]);
            for t in list {
                b.push(0x15);
                if let Some(c) = t.cluster {
                    b.extend_from_slice(&[0x26, 0]);
                    b.extend_from_slice(&c.to_le_bytes());
                }
                if let Some(ep) = t.endpoint {
                    b.extend_from_slice(&[0x25, 1]);
                    b.extend_from_slice(&ep.to_le_bytes());
                }
                if let Some(dt) = t.device_type {
                    b.extend_from_slice(&[0x26, 2]);
                    b.extend_from_slice(&dt.to_le_bytes());
                }
                b.push(0x18);
            }
            b.push(0x18);
        }
    }
    b.push(0x18);
    b
}

pub fn has_empty_list(e: &Entry) -> bool {
    e.subjects.as_ref().is_some_and(|l| l.is_empty())
        || e.targets.as_ref().is_some_and(|l| l.is_empty())
}

pub fn sut_entry_api(e: &Entry, fab: Option<NonZeroU8>) -> Result<AclEntry, String> {
    let mut out = AclEntry::new(fab, sut_privilege(e.privilege), sut_mode(e.mode));
    if let Some(list) = &e.subjects {
        for s in list {
            out.add_subject(subj_value(s))
                .map_err(|_| "add_subject failed".to_string())?;
        }
    }
    if let Some(list) = &e.targets {
        for t in list {
            out.add_target(Target::new(t.endpoint, t.cluster, t.device_type))
                .map_err(|_| "add_target failed".to_string())?;
        }
    }
    Ok(out)
}

pub fn sut_entry_tlv(e: &Entry, fab: Option<NonZeroU8>) -> Result<AclEntry, String> {
    let bytes = entry_tlv(e);
    let mut out = AclEntry::from_tlv(&TLVElement::new(&bytes))
        .map_err(|_| "AclEntry::from_tlv failed on a hand-encoded entry".to_string())?;
    out.fab_idx = fab;
    Ok(out)
}

/// Entries with an empty (non-null) list can only be built by decoding TLV (as when a fabric is
/// loaded from storage); everything else goes through the builder API.
pub fn sut_entry(e: &Entry, fab: Option<NonZeroU8>) -> Result<AclEntry, String> {
    if has_empty_list(e) {
        let out = sut_entry_tlv(e, fab)?;
        // Make sure the decoded entry really has the list shape we wanted.
        let subj_ok = match &e.subjects {
            None => out.subjects().is_none(),
            Some(l) => out.subjects().into_option().is_some_and(|s| s.len() == l.len()),
        };
        let tgt_ok = match &e.targets {
            None => out.targets().is_none(),
            Some(l) => out.targets().into_option().is_some_and(|s| s.len() == l.len()),
        };
        if !subj_ok || !tgt_ok {
            return Err("decoded entry does not have the intended null/empty lists".into());
        }
        Ok(out)
    } else {
        sut_entry_api(e, fab)
    }
}

/// Install `world` into the thread's `Matter` instance. Returns, per fabric, the entries that
/// are really in the table (PASE-mode entries are documented as refused by `acl_add`).
pub fn install(m: &Matter<'_>, world: &World) -> Result<Vec<Vec<Entry>>, String> {
    m.with_state(|state| {
        state.fabrics.reset();
        let n = world.fabrics.len();
        for i in 0..n {
            let f = state
                .fabrics
                .add_with_post_init(|_| Ok(()))
                .map_err(|_| "cannot add fabric".to_string())?;
            if f.fab_idx().get() as usize != i + 1 {
                return Err("unexpected fabric index".to_string());
            }
        }
        for (i, fs) in world.fabrics.iter().enumerate() {
            if !fs.present {
                let idx = NonZeroU8::new(i as u8 + 1).ok_or("idx")?;
                state
                    .fabrics
                    .remove(idx)
                    .map_err(|_| "cannot remove fabric".to_string())?;
            }
        }
        let mut installed = Vec::new();
        for (i, fs) in world.fabrics.iter().enumerate() {
            let mut here = Vec::new();
            if fs.present {
                let idx = NonZeroU8::new(i as u8 + 1).ok_or("idx")?;
                let fabric = state
                    .fabrics
                    .fabric_mut(idx)
                    .map_err(|_| "fabric vanished".to_string())?;
                for e in &fs.entries {
                    let entry = sut_entry(e, None)?;
                    match fabric.acl_add(entry) {
                        Ok(_) => here.push(e.clone()),
                        Err(_) if e.mode == Mode::Pase => {}
                        Err(_) => return Err("acl_add refused a CASE/Group entry".to_string()),
                    }
                }
                for g in &fs.groups {
                    if g.aux || g.endpoints.is_empty() {
                        fabric
                            .groups_mut()
                            .groupcast_join(g.id, &g.endpoints, false, None)
                            .map_err(|_| "groupcast_join failed".to_string())?;
                        if g.aux {
                            fabric.groups_mut().set_has_aux_acl(g.id, true);
                        }
                    } else {
                        for ep in &g.endpoints {
                            fabric
                                .groups_mut()
                                .add(*ep, g.id, "")
                                .map_err(|_| "groups add failed".to_string())?;
                        }
                    }
                }
            }
            installed.push(here);
        }
        Ok(installed)
    })
}

pub fn sut_subjects(acc: &Acc) -> Result<AccessorSubjects, String> {
    let mut s = AccessorSubjects::new(acc.id);
    for (id, ver) in &acc.cats {
        s.add_catid(((*id as u32) << 16) | *ver as u32)
            .map_err(|_| "add_catid failed".to_string())?;
    }
    Ok(s)
}

pub fn sut_device_types(req: &Req) -> Vec<DeviceType> {
    req.device_types
        .iter()
        .map(|d| DeviceType { dtype: *d, drev: 1 })
        .collect()
}

pub fn sut_op(req: &Req) -> Access {
    if req.write {
        Access::WRITE
    } else {
        Access::READ
    }
}

/// `AccessReq::allow()` on the currently installed world.
pub fn sut_allow(m: &'static Matter<'static>, acc: &Acc, req: &Req, aux: bool) -> Result<bool, String> {
    let accessor = Accessor::new(acc.fab, aux, sut_subjects(acc)?, acc.mode.map(sut_mode), m);
    let dts = sut_device_types(req);
    let path = GenericPath::new(Some(req.endpoint), Some(req.cluster), Some(req.leaf));
    let mut r = AccessReq::new(&accessor, path, sut_op(req), &dts);
    r.set_target_perms(Access::from_bits_truncate(req.access));
    Ok(r.allow())
}

pub fn sut_world_allow(world: &World, acc: &Acc, req: &Req, aux: bool) -> Result<bool, String> {
    let m = matter();
    install(m, world)?;
    sut_allow(m, acc, req, aux)
}

// ---------------------------------------------------------------------------------------------
// Checks
// ---------------------------------------------------------------------------------------------

pub fn describe(acc: &Acc, req: &Req) -> String {
    format!(
        "accessor {acc:?}; request ep={} cl={:#x} dts={:?} op={} decl={:?}",
        req.endpoint,
        req.cluster,
        req.device_types,
        if req.write { "write/invoke" } else { "read" },
        Access::from_bits_truncate(req.access)
    )
}

/// Whether a ProxyView grant includes View is treated as UNSPECIFIED: the property statement
/// does not name ProxyView and rs-matter documents "ProxyView grants no rights for non-proxy
/// operations" as a deliberate decision (dm/types/privilege.rs), while the Matter Core spec lets
/// ProxyView subsume View. The reference is therefore evaluated under both readings; where they
/// disagree (i.e. the only matching entries that could grant the required View privilege are
/// ProxyView entries) either outcome is accepted and the case is labelled
/// `proxyview-unspecified`. Returns (expectation, proxyview_unspecified).
pub fn combine(exp_proxy_grants_view: Expect, exp_proxy_grants_nothing: Expect) -> (Expect, bool) {
    if exp_proxy_grants_view == exp_proxy_grants_nothing {
        (exp_proxy_grants_view, false)
    } else {
        (Expect::Either, true)
    }
}

pub fn mismatch(prefix: &str, got: bool, exp: Expect, detail: impl FnOnce() -> String) -> Option<Case> {
    let ok = match exp {
        Expect::Either => true,
        Expect::Allow => got,
        Expect::Deny => !got,
    };
    if ok {
        return None;
    }
    let sig = if got {
        format!("{prefix}:granted-but-reference-denies")
    } else {
        format!("{prefix}:denied-but-reference-grants")
    };
    Some(Case::fail(sig, detail()))
}

pub fn check_decision(c: &DecisionCase) -> Case {
    let m = matter();
    let installed = match install(m, &c.world) {
        Ok(i) => i,
        Err(e) => return Case::inconclusive(e),
    };
    // The model sees the entries that really are in the tables.
    let mut world = c.world.clone();
    for (f, inst) in world.fabrics.iter_mut().zip(installed) {
        f.entries = inst;
    }
    let got = match sut_allow(m, &c.acc, &c.req, false) {
        Ok(g) => g,
        Err(e) => return Case::inconclusive(e),
    };
    let (exp, pv_unspecified) = combine(
        ref_decide(&world, &c.acc, &c.req, true),
        ref_decide(&world, &c.acc, &c.req, false),
    );
    if let Some(f) = mismatch("iff", got, exp, || {
        format!(
            "allow()={got}, reference={exp:?}; {}; fabrics={:?}",
            describe(&c.acc, &c.req),
            world.fabrics
        )
    }) {
        return f;
    }

    // Statistics: near misses
    let mut labels: Vec<String> = Vec::new();
    let mut nontrivial = false;
    if c.acc.mode == Some(Mode::Pase) {
        labels.push("pase".into());
    } else if c.acc.mode.is_none() {
        labels.push("unauthenticated".into());
    } else if c.acc.fab == 0 {
        labels.push("fabric-0".into());
    } else if c.acc.fab as usize > world.fabrics.len() || !world.fabrics[c.acc.fab as usize - 1].present {
        labels.push("fabric-missing".into());
        // would an entry of another fabric have matched?
        if got {
            nontrivial = true;
        }
    } else {
        let nd = need(Access::from_bits_truncate(c.req.access), c.req.write);
        let fabric = &world.fabrics[c.acc.fab as usize - 1];
        let mut near = false;
        for e in &fabric.entries {
            let d = dims(e, &c.acc, &c.req, nd);
            let misses = [d.mode, d.subject, d.target, d.privilege]
                .iter()
                .filter(|b| !**b)
                .count();
            if misses == 1 {
                near = true;
                let which = if !d.mode {
                    "near-miss:auth-mode"
                } else if !d.subject {
                    if e.subjects.as_ref().is_some_and(|l| l.iter().any(|s| matches!(s, Subj::Cat { id, .. } if c.acc.cats.iter().any(|(a, _)| a == id)))) {
                        "near-miss:cat-version"
                    } else {
                        "near-miss:subject"
                    }
                } else if !d.target {
                    "near-miss:target"
                } else {
                    "near-miss:privilege"
                };
                labels.push(which.into());
            }
            if misses == 0 {
                if has_empty_list(e) {
                    labels.push("match:empty-list-wildcard".into());
                }
                if e.subjects.as_ref().is_some_and(|l| l.iter().any(|s| matches!(s, Subj::Cat { .. })))
                    && !e.subjects.as_ref().is_some_and(|l| l.iter().any(|s| matches!(s, Subj::Id(v) if *v == c.acc.id)))
                {
                    labels.push("match:by-cat".into());
                }
                if e.targets.as_ref().is_some_and(|l| l.iter().any(|t| t.device_type.is_some())) {
                    labels.push("match:entry-with-device-type".into());
                }
            }
        }
        match exp {
            Expect::Allow => {
                labels.push(format!("allow:{}", if c.req.write { "write" } else { "read" }));
                labels.push(format!("allow:{:?}", c.acc.mode.unwrap_or(Mode::Pase)));
            }
            Expect::Deny => labels.push(if near { "deny:near-miss" } else { "deny:far" }.into()),
            Expect::Either => labels.push(
                if pv_unspecified {
                    if got { "proxyview-unspecified:sut-grants" } else { "proxyview-unspecified:sut-denies" }
                } else {
                    "either(ambiguous-declaration)"
                }
                .into(),
            ),
        }
        nontrivial = near || exp == Expect::Allow;
        // foreign-fabric entry that would match if it were the accessor's
        if exp == Expect::Deny {
            let mut foreign = world.clone();
            let all: Vec<Entry> = world
                .fabrics
                .iter()
                .enumerate()
                .filter(|(i, _)| *i != c.acc.fab as usize - 1)
                .flat_map(|(_, f)| f.entries.iter().cloned())
                .collect();
            foreign.fabrics[c.acc.fab as usize - 1].entries = all;
            if ref_decide(&foreign, &c.acc, &c.req, true) == Expect::Allow {
                labels.push("deny:only-foreign-fabric-entry-matches".into());
                nontrivial = true;
            }
        }
    }
    Case::pass(nontrivial).labels(labels)
}

pub fn check_entry(c: &EntryCase) -> Case {
    let m = matter();
    let entry = match sut_entry(&c.entry, NonZeroU8::new(c.entry_fab)) {
        Ok(e) => e,
        Err(e) => return Case::inconclusive(e),
    };
    let subjects = match sut_subjects(&c.acc) {
        Ok(s) => s,
        Err(e) => return Case::inconclusive(e),
    };
    let accessor = Accessor::new(c.acc.fab, false, subjects, c.acc.mode.map(sut_mode), m);
    let dts = sut_device_types(&c.req);
    let path = GenericPath::new(Some(c.req.endpoint), Some(c.req.cluster), Some(c.req.leaf));
    let mut r = AccessReq::new(&accessor, path, sut_op(&c.req), &dts);
    r.set_target_perms(Access::from_bits_truncate(c.req.access));
    let got = entry.allow(&r, false);

    let (exp, pv_unspecified) = combine(
        ref_entry(&c.entry, c.entry_fab, &c.acc, &c.req, true),
        ref_entry(&c.entry, c.entry_fab, &c.acc, &c.req, false),
    );
    if let Some(f) = mismatch("entry", got, exp, || {
        format!(
            "AclEntry::allow()={got}, reference={exp:?}; entry(fab={}) {:?}; {}",
            c.entry_fab,
            c.entry,
            describe(&c.acc, &c.req)
        )
    }) {
        return f;
    }

    let nd = need(Access::from_bits_truncate(c.req.access), c.req.write);
    let d = dims(&c.entry, &c.acc, &c.req, nd);
    let fab_ok = c.entry_fab != 0 && c.entry_fab == c.acc.fab;
    let misses = [fab_ok, d.mode, d.subject, d.target, d.privilege]
        .iter()
        .filter(|b| !**b)
        .count();
    let label = if misses == 0 {
        "match"
    } else if misses > 1 {
        "far"
    } else if !fab_ok {
        "near-miss:fabric"
    } else if !d.mode {
        "near-miss:auth-mode"
    } else if !d.subject {
        "near-miss:subject"
    } else if !d.target {
        "near-miss:target"
    } else {
        "near-miss:privilege"
    };
    let mut case = Case::pass(misses <= 1).label(label);
    if pv_unspecified {
        case = case.label(if got { "proxyview-unspecified:sut-grants" } else { "proxyview-unspecified:sut-denies" });
    }
    case
}

pub fn check_relational(c: &RelCase) -> Case {
    let run = |w: &World| sut_world_allow(w, &c.acc, &c.req, c.aux);
    let base = match run(&c.world) {
        Ok(b) => b,
        Err(e) => return Case::inconclusive(e),
    };
    let ctx = || {
        format!(
            "aux={}; {}; fabrics={:?}",
            c.aux,
            describe(&c.acc, &c.req),
            c.world.fabrics
        )
    };
    match c.acc.mode {
        Some(Mode::Pase) => {
            return if base {
                Case::pass(false).label("pase")
            } else {
                Case::fail("rel:pase-commissioner-denied", ctx())
            };
        }
        None => {
            return if base {
                Case::fail("rel:unauthenticated-accessor-granted", ctx())
            } else {
                Case::pass(false).label("unauthenticated")
            };
        }
        _ => {}
    }
    let n = c.world.fabrics.len();
    let f = c.acc.fab as usize;
    if f == 0 || f > n || !c.world.fabrics[f - 1].present {
        return if base {
            Case::fail("rel:accessor-without-existing-fabric-granted", ctx())
        } else {
            // non-trivial when some fabric holds an entry / group that would have granted it
            let mut w = c.world.clone();
            let donor = w.fabrics.iter().position(|x| x.present && !x.entries.is_empty());
            let nt = donor.is_some();
            let _ = &mut w;
            Case::pass(nt).label("fabric-missing-or-0")
        };
    }

    let mut labels = vec![if base { "base:allow" } else { "base:deny" }.to_string()];

    // (1) fabric isolation: the contents of the accessor's fabric moved to another fabric
    let g = f % n; // index (0-based) of the next fabric
    if g != f - 1 {
        let mut moved = c.world.clone();
        let src = moved.fabrics[f - 1].clone();
        moved.fabrics[g] = FabricSpec {
            present: true,
            entries: src.entries,
            groups: src.groups,
        };
        moved.fabrics[f - 1].entries.clear();
        moved.fabrics[f - 1].groups.clear();
        match run(&moved) {
            Ok(true) => {
                return Case::fail(
                    "rel:entries-of-another-fabric-grant",
                    format!(
                        "all entries/groups of fabric {f} were moved to fabric {}, yet the accessor on fabric {f} is still granted; {}",
                        g + 1,
                        ctx()
                    ),
                )
            }
            Ok(false) => {}
            Err(e) => return Case::inconclusive(e),
        }
        // and with the accessor's fabric gone altogether
        moved.fabrics[f - 1].present = false;
        match run(&moved) {
            Ok(true) => {
                return Case::fail(
                    "rel:accessor-without-existing-fabric-granted",
                    format!("fabric {f} removed, contents moved to fabric {}; {}", g + 1, ctx()),
                )
            }
            Ok(false) => {}
            Err(e) => return Case::inconclusive(e),
        }
    }

    // (2) other fabrics are irrelevant: clearing / removing them does not change the decision
    let mut alone = c.world.clone();
    for (i, fs) in alone.fabrics.iter_mut().enumerate() {
        if i != f - 1 {
            fs.entries.clear();
            fs.groups.clear();
        }
    }
    for remove in [false, true] {
        if remove {
            for (i, fs) in alone.fabrics.iter_mut().enumerate() {
                if i != f - 1 {
                    fs.present = false;
                }
            }
        }
        match run(&alone) {
            Ok(r) if r != base => {
                return Case::fail(
                    if base { "rel:grant-depends-on-another-fabric" } else { "rel:other-fabric-content-denies" },
                    format!(
                        "decision {base} became {r} after {} the other fabrics; {}",
                        if remove { "removing" } else { "emptying" },
                        ctx()
                    ),
                )
            }
            Ok(_) => {}
            Err(e) => return Case::inconclusive(e),
        }
    }

    // (3) monotonicity: removing an entry never turns a deny into a grant
    let cnt = c.world.fabrics[f - 1].entries.len();
    let mut flips = 0;
    for i in 0..cnt {
        let mut less = c.world.clone();
        less.fabrics[f - 1].entries.remove(i);
        match run(&less) {
            Ok(true) if !base => {
                return Case::fail(
                    "rel:removing-an-entry-grants",
                    format!("removing entry #{i} of fabric {f} turned deny into grant; {}", ctx()),
                )
            }
            Ok(r) => {
                if r != base {
                    flips += 1;
                }
            }
            Err(e) => return Case::inconclusive(e),
        }
    }
    if flips > 0 {
        labels.push("removal-flips-grant-to-deny".into());
    }
    if c.aux {
        labels.push("aux-on".into());
    }
    Case::pass(base).labels(labels)
}

pub fn check_group_endpoint(c: &GroupCase) -> Case {
    let m = matter();
    if let Err(e) = install(m, &c.world) {
        return Case::inconclusive(e);
    }
    let subjects = match sut_subjects(&c.acc) {
        Ok(s) => s,
        Err(e) => return Case::inconclusive(e),
    };
    let accessor = Accessor::new(c.acc.fab, c.aux, subjects, c.acc.mode.map(sut_mode), m);
    let got = accessor.is_endpoint_accessible(c.endpoint);

    let (exp, label) = if c.acc.mode != Some(Mode::Group) {
        (true, "non-group")
    } else {
        let f = c.acc.fab as usize;
        if f == 0 || f > c.world.fabrics.len() || !c.world.fabrics[f - 1].present {
            (false, "group:no-fabric")
        } else {
            match c.world.fabrics[f - 1]
                .groups
                .iter()
                .find(|g| g.id as u64 == c.acc.id)
            {
                None => (false, "group:not-a-group-of-the-fabric"),
                Some(g) => {
                    if g.endpoints.contains(&c.endpoint) {
                        (true, "group:member")
                    } else {
                        (false, "group:non-member")
                    }
                }
            }
        }
    };
    if got != exp {
        return Case::fail(
            if got { "group:non-member-endpoint-reachable" } else { "group:member-endpoint-unreachable" },
            format!(
                "is_endpoint_accessible({})={got}, reference={exp} ({label}); accessor {:?}; fabrics={:?}",
                c.endpoint, c.acc, c.world.fabrics
            ),
        );
    }
    // non-trivial: group accessor whose group exists in some fabric
    let nt = c.acc.mode == Some(Mode::Group)
        && c.world
            .fabrics
            .iter()
            .any(|f| f.present && f.groups.iter().any(|g| g.id as u64 == c.acc.id));
    Case::pass(nt).label(label)
}

pub fn check_table(t: &TableItem) -> Case {
    let decl = Access::from_bits_truncate(t.access);
    let nd = need(decl, t.write);
    let (exp, pv_unspecified) = combine(
        priv_ok(t.privilege, nd, true),
        priv_ok(t.privilege, nd, false),
    );
    let op = if t.write { Access::WRITE } else { Access::READ };

    // (a) the element-level predicate
    let got = decl.is_ok(op, sut_privilege(t.privilege));
    if let Some(f) = mismatch("table:is_ok", got, exp, || {
        format!(
            "Access({decl:?}).is_ok({op:?}, {:?})={got}, reference={exp:?} (requirement {nd:?})",
            t.privilege
        )
    }) {
        return f;
    }

    // (b) the same through a one-entry node
    let world = World {
        fabrics: vec![FabricSpec {
            present: true,
            entries: vec![Entry {
                privilege: t.privilege,
                mode: Mode::Case,
                subjects: None,
                targets: None,
            }],
            groups: vec![],
        }],
    };
    let acc = Acc {
        mode: Some(Mode::Case),
        fab: 1,
        id: 5,
        cats: vec![],
    };
    let req = Req {
        endpoint: 1,
        cluster: 6,
        leaf: 0,
        device_types: vec![],
        write: t.write,
        access: t.access,
    };
    let got = match sut_world_allow(&world, &acc, &req, false) {
        Ok(g) => g,
        Err(e) => return Case::inconclusive(e),
    };
    if let Some(f) = mismatch("table:allow", got, exp, || {
        format!(
            "one wildcard CASE entry with {:?}: allow()={got} for {op:?} on {decl:?}, reference={exp:?} (requirement {nd:?})",
            t.privilege
        )
    }) {
        return f;
    }
    let label = match (nd, exp) {
        _ if pv_unspecified => "proxyview-unspecified",
        (Need::Unsupported, _) => "operation-not-declared",
        (Need::NoneDeclared, _) => "no-privilege-declared",
        (Need::Ambiguous(..), Expect::Either) => "ambiguous-either",
        (_, Expect::Allow) => "allow",
        _ => "deny",
    };
    Case::pass(matches!(nd, Need::Level(_) | Need::Ambiguous(..))).label(label)
}

// ---------------------------------------------------------------------------------------------
// Generators
// ---------------------------------------------------------------------------------------------

/// ids usable as node id and as group id
pub const SMALL_IDS: [u64; 3] = [1, 2, 0x12AB];
/// ids usable as node id only
pub const NODE_IDS: [u64; 3] = [112233, 0xFFFF_FFEF_FFFF_FFFF, 0x0001_0000];
pub const CAT_IDS: [u16; 2] = [0xABCD, 0x0001];
pub const ENDPOINTS: [u16; 3] = [0, 1, 2];
pub const CLUSTERS: [u32; 3] = [0x0006, 0x001F, 0x0028];
pub const DEV_TYPES: [u16; 3] = [0x0100, 0x0016, 0x000A];
pub const GROUP_IDS: [u16; 4] = [1, 2, 0x12AB, 0xFFFF];

pub fn any_id() -> impl Strategy<Value = u64> {
    prop_oneof![
        3 => prop::sample::select(SMALL_IDS.to_vec()),
        2 => prop::sample::select(NODE_IDS.to_vec()),
    ]
}

pub fn small_id() -> impl Strategy<Value = u64> {
    prop_oneof![
        6 => prop::sample::select(SMALL_IDS.to_vec()),
        1 => Just(0xFFFFu64),
    ]
}

pub fn cat_version() -> impl Strategy<Value = u16> {
    prop_oneof![
        8 => 1u16..=3,
        1 => Just(0u16),
        1 => Just(0xFFFFu16),
        1 => Just(0xFFFEu16),
    ]
}

pub fn cat() -> impl Strategy<Value = (u16, u16)> {
    (prop::sample::select(CAT_IDS.to_vec()), cat_version())
}

pub fn privilege() -> impl Strategy<Value = Priv> {
    prop::sample::select(ALL_PRIVS.to_vec())
}

pub fn mode() -> impl Strategy<Value = Mode> {
    prop_oneof![12 => Just(Mode::Case), 6 => Just(Mode::Group), 1 => Just(Mode::Pase)]
}

pub fn list<T: std::fmt::Debug + Clone + 'static>(
    item: impl Strategy<Value = T> + 'static,
    max: usize,
) -> impl Strategy<Value = List<T>> {
    prop_oneof![
        2 => Just(None),
        1 => Just(Some(Vec::new())),
        5 => prop::collection::vec(item, 1..=max).prop_map(Some),
    ]
}

pub fn target() -> impl Strategy<Value = Tgt> {
    (
        // which fields are present: at least one; endpoint+device-type together is rare
        prop::sample::select(vec![
            0b001u8, 0b010, 0b100, 0b011, 0b110, 0b001, 0b010, 0b100, 0b011, 0b110, 0b101, 0b111,
        ]),
        prop::sample::select(ENDPOINTS.to_vec()),
        prop::sample::select(CLUSTERS.to_vec()),
        prop_oneof![
            6 => prop::sample::select(DEV_TYPES.to_vec()).prop_map(|d| d as u32),
            1 => Just(0x0001_0100u32),
        ],
    )
        .prop_map(|(mask, ep, cl, dt)| Tgt {
            endpoint: (mask & 0b001 != 0).then_some(ep),
            cluster: (mask & 0b010 != 0).then_some(cl),
            device_type: (mask & 0b100 != 0).then_some(dt),
        })
}

/// `strict`: only entries the Access Control cluster accepts (no Group+Administer).
pub fn entry(strict: bool) -> impl Strategy<Value = Entry> {
    (mode(), privilege()).prop_flat_map(move |(m, p)| {
        let p = if strict && m == Mode::Group && p == Priv::Administer {
            Priv::Manage
        } else {
            p
        };
        let subj: BoxedStrategy<Subj> = match m {
            Mode::Case => prop_oneof![
                3 => any_id().prop_map(Subj::Id),
                3 => cat().prop_map(|(id, ver)| Subj::Cat { id, ver }),
            ]
            .boxed(),
            _ => small_id().prop_map(Subj::Id).boxed(),
        };
        (list(subj, 4), list(target(), 3)).prop_map(move |(subjects, targets)| Entry {
            privilege: p,
            mode: m,
            subjects,
            targets,
        })
    })
}

pub fn groups() -> impl Strategy<Value = Vec<GroupSpec>> {
    prop::collection::vec(
        prop::option::weighted(
            0.5,
            (
                prop::collection::vec(prop::sample::select(ENDPOINTS.to_vec()), 0..=3),
                prop::bool::weighted(0.4),
            ),
        ),
        4,
    )
    .prop_map(|v| {
        v.into_iter()
            .enumerate()
            .filter_map(|(i, g)| {
                g.map(|(mut eps, aux)| {
                    eps.sort();
                    eps.dedup();
                    GroupSpec {
                        id: GROUP_IDS[i],
                        endpoints: eps,
                        aux,
                    }
                })
            })
            .collect()
    })
}

pub fn fabric(strict: bool, with_groups: bool) -> impl Strategy<Value = FabricSpec> {
    (
        prop::bool::weighted(0.85),
        prop::collection::vec(entry(strict), 0..=4),
        if with_groups { groups().boxed() } else { Just(Vec::new()).boxed() },
    )
        .prop_map(|(present, entries, groups)| FabricSpec {
            present,
            entries,
            groups,
        })
}

pub fn world(strict: bool, with_groups: bool) -> impl Strategy<Value = World> {
    prop::collection::vec(fabric(strict, with_groups), 3).prop_map(|fabrics| World { fabrics })
}

pub fn accessor() -> impl Strategy<Value = Acc> {
    let m = prop_oneof![
        12 => Just(Some(Mode::Case)),
        6 => Just(Some(Mode::Group)),
        1 => Just(Some(Mode::Pase)),
        1 => Just(None),
    ];
    let fab = prop_oneof![
        1 => Just(0u8),
        5 => Just(1u8),
        4 => Just(2u8),
        3 => Just(3u8),
        1 => Just(4u8),
        1 => Just(255u8),
    ];
    (m, fab).prop_flat_map(|(mode, fab)| {
        let id = match mode {
            Some(Mode::Group) => small_id().boxed(),
            _ => any_id().boxed(),
        };
        let cats = match mode {
            Some(Mode::Case) => prop::collection::vec(cat(), 0..=3).boxed(),
            _ => Just(Vec::new()).boxed(),
        };
        (id, cats).prop_map(move |(id, cats)| Acc { mode, fab, id, cats })
    })
}

/// Declarations produced by the code generator and the `Access` constants.
pub fn canonical_decls() -> Vec<u16> {
    let v = Access::NEED_VIEW;
    let o = Access::NEED_OPERATE | Access::NEED_MANAGE | Access::NEED_ADMIN;
    let mm = Access::NEED_MANAGE | Access::NEED_ADMIN;
    let a = Access::NEED_ADMIN;
    let r = Access::READ;
    let w = Access::WRITE;
    let mut out = vec![
        Access::RV,
        Access::RA,
        Access::RWVA,
        Access::RWFA,
        Access::RWVM,
        Access::RWFVM,
        Access::WO,
        Access::WM,
        Access::WA,
        r | o,
        r | mm,
        r | w | o,
        r | w | mm,
        r | w | a,
        r | w | o | v,
        r | w | mm | v,
        r | w | a | v,
        w | o | Access::TIMED_ONLY,
        w | a | Access::FAB_SCOPED,
        r | v | Access::FAB_SENSITIVE,
    ];
    out.dedup();
    out.into_iter().map(|a| a.bits()).collect()
}

pub fn request() -> impl Strategy<Value = Req> {
    (
        prop::sample::select(ENDPOINTS.to_vec()),
        prop::sample::select(CLUSTERS.to_vec()),
        0u32..3,
        prop::collection::vec(prop::sample::select(DEV_TYPES.to_vec()), 0..=3),
        any::<bool>(),
        prop_oneof![
            3 => prop::sample::select(canonical_decls()),
            2 => 0u16..512,
        ],
    )
        .prop_map(|(endpoint, cluster, leaf, device_types, write, access)| Req {
            endpoint,
            cluster,
            leaf,
            device_types,
            write,
            access,
        })
}


/// Random knobs used to *construct* accessors/requests that are close to an entry (instead of
/// filtering for them): each dimension is aligned with the focus entry with some probability.
#[derive(Debug, Clone, Copy)]
pub struct Knobs {
    pub fab: u8,
    pub fab_sel: u16,
    pub entry_sel: u16,
    pub mode: u8,
    pub subj: u8,
    pub subj_sel: u16,
    pub ver_delta: i8,
    pub tgt: u8,
    pub tgt_sel: u16,
}

pub fn knobs() -> impl Strategy<Value = Knobs> {
    (
        (any::<u8>(), any::<u16>(), any::<u16>(), any::<u8>()),
        (any::<u8>(), any::<u16>(), -1i8..=1, any::<u8>(), any::<u16>()),
    )
        .prop_map(
            |((fab, fab_sel, entry_sel, mode), (subj, subj_sel, ver_delta, tgt, tgt_sel))| Knobs {
                fab,
                fab_sel,
                entry_sel,
                mode,
                subj,
                subj_sel,
                ver_delta,
                tgt,
                tgt_sel,
            },
        )
}

/// Move the accessor / request towards matching `e` (never changes `e`).
pub fn align(acc: &mut Acc, req: &mut Req, e: &Entry, k: &Knobs) {
    if k.mode < 215 {
        acc.mode = Some(e.mode);
        if e.mode != Mode::Case {
            acc.cats.clear();
        }
        if e.mode == Mode::Group && acc.id > 0xFFFF {
            acc.id = 0x12AB;
        }
    }
    if k.subj < 190 {
        if let Some(list) = e.subjects.as_ref().filter(|l| !l.is_empty()) {
            match list[vh::util::pick(k.subj_sel, list.len())] {
                Subj::Id(v) => {
                    if acc.mode != Some(Mode::Group) || v <= 0xFFFF {
                        acc.id = v;
                    }
                }
                Subj::Cat { id, ver } => {
                    if acc.mode == Some(Mode::Case) {
                        let v = ver.saturating_add_signed(k.ver_delta as i16);
                        if acc.cats.is_empty() {
                            acc.cats.push((id, v));
                        } else {
                            let i = vh::util::pick(k.subj_sel.rotate_left(5), acc.cats.len());
                            acc.cats[i] = (id, v);
                        }
                    }
                }
            }
        }
    }
    if k.tgt < 190 {
        if let Some(list) = e.targets.as_ref().filter(|l| !l.is_empty()) {
            let t = list[vh::util::pick(k.tgt_sel, list.len())];
            if let Some(ep) = t.endpoint {
                req.endpoint = ep;
            }
            if let Some(cl) = t.cluster {
                req.cluster = cl;
            }
            if let Some(dt) = t.device_type {
                if dt <= 0xFFFF && !req.device_types.contains(&(dt as u16)) {
                    if req.device_types.len() < 3 {
                        req.device_types.push(dt as u16);
                    } else {
                        req.device_types[0] = dt as u16;
                    }
                }
            }
        }
    }
}

/// Pick a focus entry in the world and align accessor and request with it. Mostly the accessor
/// is put on the focus entry's fabric; sometimes it keeps its own (possibly foreign, 0 or
/// non-existent) fabric index so that only a foreign entry matches.
pub fn align_world(world: &World, acc: &mut Acc, req: &mut Req, k: &Knobs) {
    let with_entries: Vec<usize> = world
        .fabrics
        .iter()
        .enumerate()
        .filter(|(_, f)| f.present && !f.entries.is_empty())
        .map(|(i, _)| i)
        .collect();
    if with_entries.is_empty() {
        return;
    }
    let fi = with_entries[vh::util::pick(k.fab_sel, with_entries.len())];
    if k.fab < 200 {
        acc.fab = fi as u8 + 1;
    }
    let entries = &world.fabrics[fi].entries;
    let e = &entries[vh::util::pick(k.entry_sel, entries.len())];
    align(acc, req, e, k);
}

pub fn decision_case() -> impl Strategy<Value = DecisionCase> {
    (world(true, false), accessor(), request(), knobs()).prop_map(|(world, mut acc, mut req, k)| {
        align_world(&world, &mut acc, &mut req, &k);
        DecisionCase { world, acc, req }
    })
}

pub fn entry_case() -> impl Strategy<Value = EntryCase> {
    (
        entry(false),
        prop_oneof![1 => Just(0u8), 4 => Just(1u8), 3 => Just(2u8), 1 => Just(3u8), 1 => Just(255u8)],
        accessor(),
        // entry-level: PASE accessors are interesting too (no implicit grant at this level)
        prop::option::weighted(0.15, Just(Mode::Pase)),
        request(),
        knobs(),
    )
        .prop_map(|(entry, entry_fab, mut acc, force_pase, mut req, k)| {
            if k.fab < 200 {
                acc.fab = entry_fab;
            }
            align(&mut acc, &mut req, &entry, &k);
            if let Some(m) = force_pase {
                acc.mode = Some(m);
                acc.cats.clear();
            }
            EntryCase {
                entry,
                entry_fab,
                acc,
                req,
            }
        })
}

pub fn rel_case() -> impl Strategy<Value = RelCase> {
    (world(false, true), accessor(), request(), any::<bool>(), knobs()).prop_map(
        |(world, mut acc, mut req, aux, k)| {
            align_world(&world, &mut acc, &mut req, &k);
            RelCase { world, acc, req, aux }
        },
    )
}

pub fn group_case() -> impl Strategy<Value = GroupCase> {
    (
        world(false, true),
        accessor(),
        prop_oneof![6 => prop::sample::select(ENDPOINTS.to_vec()), 1 => Just(3u16)],
        any::<bool>(),
        prop::bool::weighted(0.7),
    )
        .prop_map(|(world, mut acc, endpoint, aux, force_group)| {
            if force_group {
                acc.mode = Some(Mode::Group);
                acc.cats.clear();
                if acc.id > 0xFFFF {
                    acc.id = 0x12AB;
                }
            }
            GroupCase {
                world,
                acc,
                endpoint,
                aux,
            }
        })
}

// ---------------------------------------------------------------------------------------------
// Harness self-test: the hand-written TLV encoder agrees with the builder API
// ---------------------------------------------------------------------------------------------

pub fn selftest() -> Result<(), String> {
    let tgts = vec![
        Tgt { endpoint: Some(1), cluster: None, device_type: None },
        Tgt { endpoint: None, cluster: Some(0x1F), device_type: Some(0x0001_0100) },
        Tgt { endpoint: Some(0xFFFE), cluster: Some(0xFFF1_FC01), device_type: None },
    ];
    let subjs = vec![
        Subj::Id(1),
        Subj::Id(0xFFFF_FFEF_FFFF_FFFF),
        Subj::Cat { id: 0xABCD, ver: 2 },
        Subj::Id(0x12AB),
    ];
    for p in ALL_PRIVS {
        for m in [Mode::Pase, Mode::Case, Mode::Group] {
            for subjects in [None, Some(subjs.clone()), Some(subjs[..1].to_vec())] {
                for targets in [None, Some(tgts.clone()), Some(tgts[1..2].to_vec())] {
                    let e = Entry {
                        privilege: p,
                        mode: m,
                        subjects: subjects.clone(),
                        targets,
                    };
                    let a = sut_entry_api(&e, None)?;
                    let b = sut_entry_tlv(&e, None)?;
                    if a != b {
                        return Err(format!("TLV-built entry differs from API-built entry for {e:?}: {a:?} vs {b:?}"));
                    }
                }
            }
        }
    }
    Ok(())
}

pub fn main() {
    let mut run = Run::new(
        "C05",
        "exploration",
        "fabric tables over indices {1,2,3} (each present with p=0.85, 0-4 entries: 5 privileges x {PASE,CASE,Group} x null/empty/1-4 subjects (node ids, CATs, group ids from small pools) x null/empty/1-3 targets (endpoint?/cluster?/device-type? from 3x3x4 pools)), accessor (mode incl. none, fabric index in {0,1,2,3,4,255}, id, 0-3 CATs with versions 0..3/0xFFFE/0xFFFF), request (3x3 path, 0-3 endpoint device types, read|write, 9-bit access declaration: 60% canonical, 40% any of 2^9); accessor and request are then aligned, dimension by dimension with p~0.75-0.85, with a randomly chosen focus entry (fabric, auth mode, one subject with CAT version -1/0/+1, one target) so that matches and near misses are constructed rather than filtered. Non-trivial: the accessor is not PASE and either the reference grants, or some entry of the accessor's fabric matches in all but one of {auth mode, subject, target, privilege} (near miss), or only a foreign-fabric entry would match; entry-iff: at most one of {fabric, auth mode, subject, target, privilege} misses; relational: the base decision is a grant; group-endpoint: group accessor whose group id exists in some fabric; distinct = distinct serialized case",
    );
    run.assume("required privilege of an access declaration = lowest NEED_* flag applicable to the operation (View never applies to write/invoke); declarations {O,M}/{O,A} on read+write elements are ambiguous and accept both outcomes between the two readings");
    run.assume("privilege lattice: View < Operate < Manage < Administer; ProxyView never grants Operate/Manage/Administer; whether a ProxyView grant includes View is UNSPECIFIED (statement silent, rs-matter documents 'grants nothing' as deliberate, the Matter spec says it subsumes View): when the only matching entries that could grant a required View privilege are ProxyView entries, either outcome is accepted (label proxyview-unspecified)");
    run.assume("an element whose declaration does not list the operation, or names no applicable privilege, grants nothing (documented by the Access unit tests)");
    run.assume("the iff comparison runs with the auxiliary-ACL feature off; entries are those a real Access Control cluster accepts plus empty (non-null) lists and spec-invalid-but-well-defined targets (endpoint+device type); Group+Administer entries only in the relational sub-check");
    run.assume("entries with empty non-null lists are built by AclEntry::from_tlv from a hand-encoded AccessControlEntryStruct (self-tested against the builder API)");

    if let Err(e) = selftest() {
        eprintln!("[C05] harness self-test failed: {e}");
        std::process::exit(2);
    }

    let n = run.cases(500_000, 10_000_000);
    run.prop("decision-iff", n, decision_case, check_decision);
    let n = run.cases(300_000, 6_000_000);
    run.prop("entry-iff", n, entry_case, check_entry);
    let n = run.cases(100_000, 2_000_000);
    run.prop("relational", n, rel_case, check_relational);
    let n = run.cases(100_000, 2_000_000);
    run.prop("group-endpoint", n, group_case, check_group_endpoint);

    let mut items = Vec::new();
    for p in ALL_PRIVS {
        for access in 0u16..512 {
            for write in [false, true] {
                items.push(TableItem {
                    privilege: p,
                    access,
                    write,
                });
            }
        }
    }
    run.exhaustive("privilege-table", items, check_table);

    run.finish();
}
