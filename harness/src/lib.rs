//! `vh` — verification harness for rs-matter (property-based testing and fuzzing).
//!
//! * [`run`]      — the driver every property binary uses: CLI/env parsing, proptest
//!                  `TestRunner`s on worker threads, exhaustive sweeps, panic capture,
//!                  known-findings, replay files, evidence writer.
//! * [`sim`]      — engine E1: virtual clock, deterministic executor, adversarial network,
//!                  logging key-value store, node builders.
//!
//! Property code lives in `src/bin/cNN.rs` so that editing one property rebuilds one binary.

pub mod gen;
pub mod run;
pub mod sim;
pub mod util;

pub use run::{Case, Run, Verdict};
