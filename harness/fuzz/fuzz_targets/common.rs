//! Shared by all fuzz targets: what to do with an oracle failure.
//!
//! An `Err("<signature>: <detail>")` of a fuzz entry becomes `panic!("ORACLE <signature>: <detail>")`
//! (libFuzzer saves the input as a crash artifact; `fuzzrun` turns it into a VIOLATION line),
//! unless `<signature>` is listed as an *open* finding of the property in
//! `$VERIF_DIR/known_findings.json` — the same rule the proptest driver applies (`vh::run`).
//! A panic that comes from inside rs-matter is not caught here (libfuzzer-sys aborts on any
//! panic); `fuzzrun` classifies it by its location (`panic@src/...:line`).

use std::collections::HashSet;
use std::sync::OnceLock;

// Arithmetic overflow and debug_assert! in rs-matter must stay panics (same profile for all crates).
const _: () = assert!(cfg!(debug_assertions), "fuzz targets must be built with debug assertions");
// (`cfg(overflow_checks)` is not stable; overflow checks follow `[profile.release]` of fuzz/Cargo.toml.)

static KNOWN: OnceLock<HashSet<String>> = OnceLock::new();

fn known(property: &str) -> &'static HashSet<String> {
    KNOWN.get_or_init(|| {
        let path = format!("{}/known_findings.json", vh::run::verif_dir());
        let mut set = HashSet::new();
        if let Ok(txt) = std::fs::read_to_string(path) {
            if let Ok(serde_json::Value::Array(items)) = serde_json::from_str::<serde_json::Value>(&txt) {
                for k in items {
                    if k["property"] == property && k["status"] == "open" {
                        if let Some(s) = k["signature"].as_str() {
                            set.insert(s.to_string());
                        }
                    }
                }
            }
        }
        set
    })
}

pub fn report(property: &str, res: Result<(), String>) {
    if let Err(e) = res {
        let sig = e.split_once(": ").map(|(s, _)| s).unwrap_or(&e);
        if known(property).contains(sig) {
            return;
        }
        panic!("ORACLE {e}");
    }
}
