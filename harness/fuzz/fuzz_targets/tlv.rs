//! libFuzzer target `tlv` (property C16): arbitrary bytes into the TLV reader oracle of
//! `src/bin/c16.rs` (`tlv_bytes_oracle` via `fuzz_entry`).
#![no_main]
#![allow(dead_code, unused_imports)]

use libfuzzer_sys::fuzz_target;

#[path = "../../src/bin/c16.rs"]
mod c16;
#[path = "common.rs"]
mod common;

fuzz_target!(|data: &[u8]| {
    common::report("C16", c16::fuzz_entry(data));
});
