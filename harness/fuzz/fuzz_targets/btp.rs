//! libFuzzer target `btp` (property C18): arbitrary bytes into the BTP hostile-input oracle of
//! `src/bin/c18.rs` (`btp_hostile_oracle`). Not listed in `fuzz/Cargo.toml` until c18.rs exists
//! (see the commented [[bin]] block there).
#![no_main]
#![allow(dead_code, unused_imports)]

use libfuzzer_sys::fuzz_target;

#[path = "../../src/bin/c18.rs"]
mod c18;
#[path = "common.rs"]
mod common;

fuzz_target!(|data: &[u8]| {
    common::report("C18", c18::btp_hostile_oracle(data));
});
