//! libFuzzer target `codecs_a` (property C17, first half): message/protocol headers, status
//! reports, BDX messages, Check-In and MCSP decoders through the fuzz-style checks of
//! `src/bin/c17a.rs`. First input byte = decoder selector (see `c17a::fuzz_entry`).
#![no_main]
#![allow(dead_code, unused_imports)]

use libfuzzer_sys::fuzz_target;

#[path = "../../src/bin/c17a.rs"]
mod c17a;
#[path = "common.rs"]
mod common;

fuzz_target!(|data: &[u8]| {
    common::report("C17", c17a::fuzz_entry(data));
});
