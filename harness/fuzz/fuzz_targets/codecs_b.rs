//! libFuzzer target `codecs_b` (property C17, second half): QR text, manual pairing code,
//! base-38, BLE advertising data, mDNS packets, certificate TLV -> DER and certification
//! declaration decoders through the fuzz-style checks of `src/bin/c17b.rs`. First input byte =
//! decoder selector (see `c17b::fuzz_entry`).
#![no_main]
#![allow(dead_code, unused_imports)]

use libfuzzer_sys::fuzz_target;

#[path = "../../src/bin/c17b.rs"]
mod c17b;
#[path = "common.rs"]
mod common;

fuzz_target!(|data: &[u8]| {
    common::report("C17", c17b::fuzz_entry(data));
});
