#!/bin/bash
# tools/mkscratch.sh <name>   — scratch worktree of /repo + private copy of the harness
#   /tmp/w-<name>   git worktree of /repo (HEAD, detached)
#   /tmp/h-<name>   copy of /verif/harness pointing at that worktree, own target dir
set -eu
n="$1"
git -C /repo worktree add --detach "/tmp/w-$n" HEAD >/dev/null
mkdir -p "/tmp/h-$n"
rsync -a --exclude target /verif/harness/ "/tmp/h-$n/"
sed -i "s#path = \"/repo/rs-matter\"#path = \"/tmp/w-$n/rs-matter\"#" "/tmp/h-$n/Cargo.toml"
sed -i "s#target-dir = .*#target-dir = \"/tmp/h-$n/target\"#" "/tmp/h-$n/.cargo/config.toml"
if [ -d /verif/.target/debug ]; then
  mkdir -p "/tmp/h-$n/target"
  cp -r /verif/.target/debug "/tmp/h-$n/target/debug"
  rm -rf "/tmp/h-$n/target/debug/incremental" "/tmp/h-$n/target/debug/"c[0-9][0-9]* 2>/dev/null || true
fi
echo "/tmp/w-$n /tmp/h-$n"
