#!/bin/bash
# tools/confirm_seed.sh <ID>[-<round>] [check-args...]   (e.g. C09, C09-2)
# Confirms a seeded change kept under /verif/seeded/<ID>/ in scratch worktrees (never in /repo):
#  1. demonstration passes on the unchanged tree, fails with the change (scratch worktree /tmp/w-confirm)
#  2. the repository's test suite still passes with the change (nextest, same command as the baseline)
#  3. the property's check reports a violation with the change (scratch harness /tmp/h-m1, or the one named by CONFIRM_M), and
#     which sub-check/signature reported it
# Results are appended to seeded/<ID>/confirm.log and summarised on stdout.
set -u
id="$1"; shift
d="/verif/seeded/$id"
w=${CONFIRM_W:-/tmp/w-confirm}
scr=${CONFIRM_M:-m1}
# several streams may work through the same list: first come, first served
mkdir -p /tmp/confirm-claimed
if [ -e "/tmp/confirm-claimed/$id" ]; then echo "skip $id (claimed by another stream)"; exit 0; fi
touch "/tmp/confirm-claimed/$id"
export CARGO_INCREMENTAL=0 CARGO_NET_OFFLINE=true
log="$d/confirm.log"; : > "$log"
if [ ! -d "$w" ]; then git -C /repo worktree add --detach "$w" HEAD >/dev/null 2>&1; fi
git -C "$w" checkout -q --detach "$(git -C /repo rev-parse HEAD)" 2>/dev/null
git -C "$w" checkout -q -- . ; git -C "$w" clean -fdq -e target
demo_cmd=$(python3 -c "import json,sys;print(json.load(open('$d/meta.json'))['demo_cmd'])" | sed "s#/tmp/seed-[a-z0-9-]*#$w#g")
echo "demo_cmd: $demo_cmd" >> "$log"
git -C "$w" apply "$d/demo.diff" || { echo "demo.diff does not apply"; exit 2; }
( eval "$demo_cmd" ) >> "$log" 2>&1; r_clean=$?
git -C "$w" apply "$d/patch.diff" || { echo "patch.diff does not apply"; exit 2; }
( eval "$demo_cmd" ) >> "$log" 2>&1; r_bug=$?
echo "demo on unchanged tree: exit $r_clean (expect 0); with the change: exit $r_bug (expect != 0)" | tee -a "$log"
# the repository's own suite with the change but without the demonstration
git -C "$w" apply -R "$d/demo.diff"
( cd "$w" && cargo nextest run --workspace --no-fail-fast --test-threads 8 --offline 2>&1 | tail -4 ) | tee -a "$log"
git -C "$w" checkout -q -- . ; git -C "$w" clean -fdq -e target
# the check, in the scratch harness
mkdir -p /tmp/mut
cat > /tmp/mut/seed_$id.py <<PY
import subprocess,sys
subprocess.check_call(["git","-C",sys.argv[1],"apply","$d/patch.diff"])
PY
base="${id%%-*}"
bin=$(echo "$base" | tr 'A-Z' 'a-z')
case "$base" in C17) bins="c17a c17b";; C13) bins="c13a c13b";; *) bins="$bin";; esac
for b in $bins; do
  echo "== check $b with the change" | tee -a "$log"
  /verif/tools/mutate.sh "$scr" "$b" /tmp/mut/seed_$id.py -- "$@" 2>&1 | tee -a "$log"
done
