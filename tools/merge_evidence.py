#!/usr/bin/env python3
"""merge_evidence.py <ID> <part> [<part> ...] — merge evidence/parts/<ID>.<part>.json into evidence/<ID>.json"""
import json, sys
pid, parts = sys.argv[1], sys.argv[2:]
docs = [json.load(open(f"/verif/evidence/parts/{pid}.{p}.json")) for p in parts]
cov = {"evaluations": 0, "distinct_nontrivial": 0, "rule": "", "samples": [], "sub_checks": [], "labels": {}, "inconclusive": 0, "exhaustive": False}
for p, d in zip(parts, docs):
    c = d["coverage"]
    cov["evaluations"] += c["evaluations"]
    cov["distinct_nontrivial"] += c["distinct_nontrivial"]
    cov["rule"] += f"[{p}] " + c["rule"] + " "
    cov["samples"] += c["samples"][:6]
    cov["sub_checks"] += c["sub_checks"]
    cov["labels"].update(c.get("labels", {}))
    cov["inconclusive"] += c.get("inconclusive", 0)
out = {
    "property_id": pid, "tier": docs[0]["tier"], "seed": docs[0]["seed"], "level": docs[0]["level"],
    "coverage": cov, "assumptions": sum((d.get("assumptions", []) for d in docs), []),
    "wall_s": round(sum(d["wall_s"] for d in docs), 3), "violations": sum(d.get("violations", 0) for d in docs),
}
json.dump(out, open(f"/verif/evidence/{pid}.json", "w"), indent=1)
