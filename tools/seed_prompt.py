#!/usr/bin/env python3
"""seed_prompt.py <ID> <n> — prints the prompt for a fresh bug-seeding sub-agent (property text only)."""
import json, sys
pid, n = sys.argv[1], sys.argv[2]
avoid = sys.argv[3] if len(sys.argv) > 3 else ""
p = {json.loads(l)['id']: json.loads(l) for l in open('/verif/properties.jsonl')}[pid]
wt = f"/tmp/seed-{pid.lower()}-{n}"
print(f"""You are an experienced Rust engineer helping to evaluate a verification effort for the open-source project project-chip/rs-matter (a Rust no_std implementation of the Matter smart-home protocol). You have your own scratch git worktree of the repository at {wt} (the crate is in {wt}/rs-matter). Work ONLY inside {wt}; do not look at or touch /repo, /verif or any other directory under /tmp. There is no network. DISK SPACE IS SCARCE and shared: run `export CARGO_INCREMENTAL=0 CARGO_PROFILE_DEV_DEBUG=0 CARGO_PROFILE_TEST_DEBUG=0` before every cargo command (debug info is most of a build's size), and when you are completely finished delete your build output with `rm -rf {wt}/target`.

The property under evaluation (it is supposed to hold for the code as it is now):

TITLE: {p['title']}

STATEMENT: {p['statement']}

QUANTIFIED OVER: {p['quantifier']['text']}

RELEVANT CODE (anchors): files {', '.join(p['anchors']['files'])}; mechanisms: {'; '.join(m['name']+' @ '+m['where'] for m in p['anchors']['mechanism'])}

YOUR TASK: produce ONE realistic change to the rs-matter source (the kind of regression a maintainer could plausibly introduce in a refactoring, optimisation or feature commit) that BREAKS this property while
  (a) the workspace still compiles (`cd {wt} && cargo build -p rs-matter --offline` and with the features `--no-default-features --features std,rustcrypto,log,groups,case-resumption,persistent-subscriptions,max-groups-per-fabric-4,max-group-keys-per-fabric-2,verif`),
  (b) the repository's existing test suite still passes: `cd {wt} && cargo test --workspace --no-fail-fast --offline 2>&1 | grep -E "^test result|FAILED|failed" | head -40` (the one test `test_commissioning_onoff_cluster` in tests/commissioning.rs fails already on the unchanged tree in this sandbox: ignore it; everything else must pass), and
  (c) the breakage needs something SPECIFIC to manifest — a particular interleaving or timing, a fault or crash at a particular point, a multi-step sequence of operations, an unusual-but-legal input, a boundary value, or two cooperating sites that each look fine alone — i.e. NOT something that ordinary use or the existing tests would expose at once. Prefer a change of a few lines in one or two places, located in the code the anchors point at.{(" A colleague has already produced a change in " + avoid + "; choose a DIFFERENT function and a different mechanism (another clause of the statement, if it has several).") if avoid else ""} Do not touch test files, Cargo manifests, build scripts or code guarded by `cfg(feature = "verif")` / `cfg(test)`.

Then write a DEMONSTRATION that the change really breaks the property: a new test file {wt}/rs-matter/tests/seeded_{pid.lower()}.rs (an integration test using only the public API; gate it with `#![cfg(feature = "std")]` and whatever features it needs), or, if the public API cannot reach it, a `#[cfg(test)] mod seeded_{pid.lower()}` unit-test module appended to the relevant source file, that FAILS with your change and PASSES without it. Keep it deterministic (no wall-clock sleeps beyond what the existing tests do, no random seeds). Verify both directions yourself: run the demonstration with the change (must fail), then revert ONLY the source change (keep the demonstration) with `git diff -- <changed source files> > /tmp/<your-worktree-name>.patch && git apply -R /tmp/<your-worktree-name>.patch`, run it again (must pass), then restore the change with `git apply`. Do NOT use `git stash`: the stash is shared between all worktrees of this repository and other engineers are working in sibling worktrees.

Deliverables, all inside {wt}:
  - {wt}/SEEDED/patch.diff   — `git diff` of the source change ONLY (no demonstration in it); it must apply to the unchanged tree with `git apply`.
  - {wt}/SEEDED/demo.diff    — `git diff`/new-file diff of the demonstration ONLY (produce it with `git add -N` + `git diff -- <demo files>`), applying on its own to the unchanged tree.
  - {wt}/SEEDED/meta.json    — {{"property": "{pid}", "summary": "<one sentence: what the change does>", "needs": "<what specific input / sequence / timing / fault is needed for it to manifest>", "demo_cmd": "<exact cargo test command that runs the demonstration>", "existing_tests": "<the command you ran and its outcome>"}}
Leave the worktree with the change AND the demonstration applied. Finish with a short report: the change, why it breaks the property, what it needs to manifest, the commands you ran and their results. If after a serious attempt you cannot find a change that passes the existing tests, say so and deliver the best candidate with an honest account of which tests it breaks.""")
