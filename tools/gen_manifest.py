#!/usr/bin/env python3
"""Regenerates /verif/MANIFEST.json from the table below (keeps it valid at all times)."""
import json, subprocess

props = [json.loads(l) for l in open('/verif/properties.jsonl')]

CLAIMED = {
 "C06": dict(level="exploration",
   text="A real InteractionModel + Responder device over a generated synthetic node (1-4 endpoints, clusters, attributes with every legal Access combination incl. TIMED_ONLY and FAB_SCOPED, commands, events; instrumented handler logging every read/write/invoke it is asked to perform) and a generated ACL configuration serves generated Read / Subscribe-priming / Write / Invoke requests (1-8 concrete and wildcard paths, repeats, absent ids, data-version filters, optional Timed request with the delay placed at the timeout +-1 us) from planted CASE/PASE/group requesters, including node composition changes between chunks and fabric-sensitive events under two fabrics. Oracle: a reference expansion written from the statement (node metadata x the independent ACL decision of C05 x timed / fabric-scoped / group-membership rules) predicts the exact multiset of (path -> data | status class) and of handler calls; both are compared by bipartite matching.",
   note="Status codes are compared by class; cases the statement leaves open accept both outcomes (listed as assumptions in the evidence). Fabric-sensitive fields of the real OperationalCredentials cluster are not checked (spec-version dependent). Two open known findings until repaired: NoSpace when reports exactly fill the buffer; fabric-sensitive event disclosed on non-fabric-filtered reads.",
   technique="deterministic simulation of a synthetic IM device, differential against a reference expansion + instrumented handler log",
   design="3/C06"),
 "C13": dict(level="exploration",
   text="Model-based histories on the real subscription table (Subscribe, priming read/done, attribute/cluster/endpoint changes and bursts that overflow the 16-entry change table, events, reporter wake-ups, report read/end ok/failed/rejected, fabric removal, clock advances) issued in exactly the order im.rs issues the table calls (concurrent primings, strictly sequential reporter, purge only when nothing is reportable); the reference model keeps, per subscription, the changes made after its priming data was read and not yet delivered. After every step each owed change must still be discoverable by that subscription (not purged, not coalesced away), failed reports must not advance watermarks, reports never come before the minimum interval, the liveness deadline lies within the maximum interval, failing subscriptions expire one maximum interval after their last success; a quiet drain at the end of every history must deliver everything owed.",
   note="Table level (L1) through cfg-gated wrappers; the end-to-end level (wire timing, retried report content, restart with persisted subscriptions) is added as a second binary (c13b) when built.",
   technique="proptest stateful histories vs undelivered-change reference model on the real subscription table",
   design="3/C13"),
 "C18": dict(level="exploration",
   text="Two real Btp ends joined by an in-harness GATT pipe exchange generated messages (0..max length, every negotiated segment size and window, sequence wrap) under generated schedules of send/poll/receive/clock steps, and under verbatim copies of the in-tree driver loops on the virtual clock; an independent header parser on the pipe checks delivery (intact, once, in order), consecutive sequence numbers, window limits, last-slot rule, segment sizes and the acknowledgement deadline. A hostile mode drives one real Btp end with model-relative faulty segments (wrong sequence, overrun, bogus ack, begin+continue, length faults, data before handshake, arbitrary handshakes, raw bytes): must-refuse classes are refused, nothing is delivered that was not framed, no panic or overflow.",
   note="Open known finding: the handshake version selection (wrong nibble mask) cannot be repaired without editing the repository's tests. Segment shapes the statement does not classify (non-full non-final segments, reserved flags, repeated acks) only get the no-panic and data-integrity checks.",
   technique="proptest stateful conversations with independent wire-level checker + model-relative hostile segment injection",
   design="3/C18"),
 "C10": dict(level="exploration",
   text="A device with generated handler behaviours (echo, echo late, silent, hold, drop after the first answer) serves 1-4 concurrent multi-round exchanges of an honest controller on planted sessions while an authenticated third peer (the harness, holding that session's keys, acknowledging what it is sent) injects crafted secured messages with arbitrary exchange id / initiator flag / R-A flags (application requests, stand-alone acks, status reports, CloseSession) and unsecured strays for unknown sessions, under a generated poll order. Invariants: a handler only ever sees messages of its own (session, exchange id, role); exchanges are opened only by initiator requests; stand-alone acks and answers to unknown exchanges reach nobody; the controller never gets a foreign response; a probe request after the disturbance is answered; all traffic stops and every exchange slot is free after bounded virtual time (no datagram storm).",
   note="Head-of-line blocking by the single receive slot (a message for an owned exchange whose owner is busy sending delays everybody for up to one retransmission ladder) is observed and documented, not judged a violation: the message is eventually picked up. Sessions are planted; eviction-driven session loss is covered by C20.",
   technique="deterministic simulation with crafted authenticated traffic, routing invariants over handler logs + bounded-time no-wedge/no-storm probes",
   design="3/C10"),
 "C16": dict(level="exploration",
   text="Generated TLV trees (all tag forms, integer widths and extremes, floats by bit pattern, strings through every length-field width, nesting to depth 64) are written through five writer APIs and must equal an independent reference encoder written from the specification, decode back to the same tree, and re-encode byte-identically through to_tlv and tlv_iter; 25 derived wire structures round-trip with generated field values; hostile inputs (valid encodings with truncations, length fields replaced by boundary values up to 2^64-1, control bytes replaced, random bytes, enumerated length/control-byte tables) go through eight probes: every accessor returns Ok/Err without panic or overflow, iteration terminates within the input length, every returned slice lies inside the input, formatter output is bounded, every structure's from_tlv is panic-free and re-encodes idempotently.",
   note="Strict rejection of malformed-but-parseable input (e.g. a tagged end-of-container) is not demanded by the statement and not checked; a libFuzzer target is an additional engine, not the deciding one.",
   technique="proptest round-trip + differential against reference TLV encoder + structured hostile-bytes probes + enumerated boundary tables",
   design="3/C16"),
 "C12": dict(level="fault_enumeration",
   text="For each of the three durable counters (global group data counter, event number, ICD check-in counter) generated histories of reservations, restarts, crashes placed before or after each individual store, and failing stores are executed against the real code with a logging in-memory KV store whose contents can be rolled back to any log prefix; the harness is the wire and checks U1 (no value used twice over all boots) and U2 (a covering boundary is stored at the moment of use). Plus an enumerated table of offsets -3..+3 around every epoch edge and the range wrap x {restart, crash before store, crash after store, store fails}.",
   note="Component level: the harness plays Exchange::initiate_group for the group counter (mirroring its store/uncover path); the wire-level ordering U3 through the real initiate_group needs the simulator and is not part of this check. Histories start next to the wrap instead of executing a full counter period.",
   technique="proptest histories with crash/restart/fault placement + enumerated edge table, uniqueness and covering-boundary invariants",
   design="3/C12"),
 "C15": dict(level="exploration",
   text="Wire-tap invariant over simulated conversations (the C09 message scripts on planted PASE/CASE sessions and the C01 CASE handshakes, both under generated loss/duplication/delay): all datagrams with the same (sender, destination, session, counter) are byte-identical, every transmission of one application message is the same datagram, counters never go backwards; plus allocator histories in which hooks position the exchange-id / session-id allocator right before the id of a live exchange / session.",
   note="Counters are compared in wire order with a slack of 256 (messages are numbered when built, not when sent); Interaction Model report retransmissions are covered once the IM scenarios (C13/C14) are merged into this check.",
   technique="deterministic simulation + wire-tap grouping invariant, generated allocator histories",
   design="3/C15"),
 "C17": dict(level="exploration",
   text="Per format (message and protocol headers, status reports, BDX messages, check-in messages, MCSP, QR and manual pairing codes, base-38, BLE advertisement payloads, mDNS records, Matter-TLV <-> X.509 certificate conversion, certification declarations, ParseBuf/WriteBuf): round-trip of generated legal field values field by field, comparison with independent reference encoders/decoders written from the specifications (own QR/base-38/Verhoeff/DNS/TLV-certificate code, the x509-cert crate as independent DER decoder), decoder fuzzing with raw, shaped, mutated and truncated input (no panic; accepted input must re-encode/decode consistently; invalid codes refused), and model-based op sequences for the buffer primitives.",
   note="Two binaries (c17a, c17b) write partial evidence merged by ./check. Encoders are not required to reject out-of-contract calls; where the statement is silent (e.g. QR version != 0) either outcome is accepted.",
   technique="proptest round-trip + differential against independent reference codecs + structured decoder fuzzing",
   design="3/C17"),
 "C19": dict(level="exploration",
   text="A certificate forger in the harness writes Matter-TLV certificates field by field, signs them through the public Crypto API and builds chains that are valid or deviate from a valid chain in exactly one of 36 ways (signature, issuer/subject names, dates, every extension flag, path length, critical unknown extension, leaf identifiers, order/repetition/omission, leaf used as authority, CA used as leaf) or in random combinations; a predicate over the generator's parameters gives the expected verdict, compared in both directions with the chain verifier, with CASE certificate validation and with AddNOC/UpdateNOC on the fail-safe (including the CSR public key and fabric-already-exists rules).",
   note="Where the statement is silent (AKID/SKID absence, authority fabric id, sub-second expiry) either outcome is accepted; AddNOC/UpdateNOC are driven on FailSafe/Fabrics directly, not through the IM handler.",
   technique="proptest with forged certificate chains, oracle = predicate over generator parameters (both directions)",
   design="3/C19"),
 "C20": dict(level="exploration",
   text="Generated sequences of up to 27 session-establishment attempts (complete PASE/CASE, wrong passcode, initiator cancels or goes silent after message k, garbage in message k, concurrent starts) from four nodes against one device whose handler tasks are cancelled at generated instants, with one established session kept in use; after the churn the virtual clock advances 200 s and every node's session/exchange table is inspected (no reserved slot, no exchange slot outside the session in use, the session in use never evicted), then a fresh node must get a handshake through. Second sub-check: Exchange::initiate futures dropped while the single-slot mDNS resolve rendezvous is Requested/InFlight, after which a legitimate resolve + CASE must be served.",
   note="Default table sizes only; idle unsecured sessions without exchanges are allowed to linger until evicted (reclaimability is what the probe verifies); the probe may be answered Busy twice before it must succeed.",
   technique="deterministic multi-node simulation, generated attempt/cancellation histories, table-occupancy invariant after quiescence + probe",
   design="3/C20"),
 "C01": dict(level="exploration",
   text="Real CASE handshakes between a device holding 1-3 generated fabrics (with/without ICAC, CATs, reused node ids) and a controller, cold or with warm resumption caches, under an on-path attacker that mutates one message kind (value/payload bit flips, truncation, extension, hostile points, replay of a recorded message; consistently or once) and drops/duplicates/delays datagrams. Session tables of both stacks are compared with generator ground truth: binding to the addressed fabric / NOC node id / CATs, directional key agreement whenever both ends hold a session, and no session after a consumed value-level mutation of Sigma1/2/3/Sigma2Resume.",
   note="Mutations count only when the mutated copy was the first copy of that counter consumed by the receiving stack; fields the protocol does not authenticate on the resumption path are not required to prevent a session; the hostile-initiator (forged chain) sub-check is added with the certificate forger of C19.",
   technique="deterministic two-node simulation, generated adversary (mutation + loss plans), session-table invariants vs generator ground truth",
   design="3/C01"),
 "C02": dict(level="exploration",
   text="Real PASE handshakes from 1-2 initiators (right / wrong / one-bit-off passcodes) against a device with a generated basic commissioning window, with window close/reopen operations fired between handshake messages, start times placed around the window expiry, one generated message mutation (value and payload bit flips, truncation, extension, invalid/identity/foreign curve points, replay) and a loss/duplication/delay plan; plus attempt sequences that cross the 20-failure revocation. Oracle from ground truth and from what the stacks consumed: a PASE session exists only with the right passcode, no consumed value-level mutation and an open, unexpired window at the instant Pake3 was consumed; keys pair up; no reserved slot is left; advertisement equals window state.",
   note="Enhanced (verifier) windows are not generated (no public verifier computation); expiry is observed through the handshake path (the IM task that polls expiry is not part of this scenario).",
   technique="deterministic multi-node simulation, generated histories of handshake steps x window operations x mutations, invariants vs ground truth",
   design="3/C02"),
 "C03": dict(level="exploration",
   text="Component level (L1): PacketHdr encode/decode driven the way the transport drives it, compared byte-for-byte with an independent spec-derived reference encoder (own AES-CCM), round-trips of every header shape and payload length, and tampering (every single-bit flip exhaustively for small packets, sampled for large ones, truncation, extension, other key, opposite direction key, other source node in the nonce, flag bytes replaced, header/body splices) that must be rejected; unsecured packets decode to what the altered bytes say or error.",
   note="The clause 'rejected without changing counters, exchanges or keys' is covered at node level by the simulator checks (C09 duplicates/R-invariants, C10 crafted injections).",
   technique="proptest round-trip + differential against independent reference encoder + exhaustive single-bit tamper",
   design="3/C03"),
 "C05": dict(level="exploration",
   text="Differential testing of AccessReq::allow / AclEntry::allow / is_endpoint_accessible against an independently written implementation of the Matter access-control algorithm over generated fabric tables, entries (null/empty/non-empty subjects and targets, CATs with versions, device types), accessors and element access declarations, both directions; model-free relational checks (fabric isolation, monotonicity under entry removal, PASE always / unauthenticated never); exhaustive privilege x access-bits x operation table.",
   note="Whether a ProxyView entry grants View is treated as unspecified (the code documents its choice, the statement does not name ProxyView); the Groupcast auxiliary grant is covered by the relational checks only.",
   technique="proptest differential vs reference ACL algorithm + metamorphic relations + exhaustive privilege table",
   design="3/C05"),
 "C04": dict(level="exploration",
   text="Model-based property testing: generated histories of counter values are fed to the real receive window (RxCtrState/GroupCtrStore) and to a set-based reference model written from the statement; verdicts are compared in both directions on every step. In addition every (16-bit bitmap, distance -20..=20) one-step transition is enumerated exhaustively and followed by a probe of all neighbouring values. This is exploration (not proof) of the history space, exhaustive only for the one-step table.",
   note="Trusts the verif hooks to expose the real window state; the transport-level clause (duplicate surfaces before exchange processing) is exercised by the simulator checks C03/C09.",
   technique="proptest histories vs reference model + exhaustive one-step table",
   design="3/C04"),
 "C09": dict(level="exploration",
   text="Two real Matter stacks with planted CASE/PASE/plaintext sessions run a generated message script over an in-memory network whose per-datagram fate (deliver, drop, duplicate, delay, blackhole) is generated, under a virtual clock and a generated poll order; invariants R1-R6 over the wire tap and both application logs decide the property (at-most-once in-order delivery, Ok only if received, TxTimeout within the ladder instead of hang/Ok, Ok when delivered+acked, back-off lower bound, duplicates re-acknowledged). Exploration of the schedule/fault space, tens of thousands of adversarial conversations per quick run.",
   note="Sessions are planted through the public ReservedSession API (handshakes under loss are covered by C01/C02); all tasks share one waker (like the repository's select-based tests), so lost-wakeup bugs between independently woken tasks are out of reach; bounded virtual horizon of 150 s per conversation.",
   technique="deterministic simulation + generated fault/schedule plans, history invariants over wire tap",
   design="3/C09"),
}

REASON_WIP = "check not built yet in this session (work in progress, see DESIGN.md section 3 for the plan)"

checks = []
for pid in sorted(CLAIMED):
    c = CLAIMED[pid]
    checks.append({
        "property_id": pid,
        "quick_cmd": f"./check {pid} quick",
        "thorough_cmd": f"./check {pid} thorough",
        "evidence_file": f"/verif/evidence/{pid}.json",
        "replay_cmd_template": f"./check {pid} quick --replay {{path}}",
        "engine": "vh",
        "level_claimed": {"category": c["level"], "text": c["text"], "design_ref": c["design"]},
        "level_note": c["note"],
        "technique": c["technique"],
    })

hook_commits = subprocess.run(["git", "-C", "/repo", "log", "--format=%h %s", "--grep=^verif:"],
                              capture_output=True, text=True).stdout.strip().splitlines()

m = {
 "version": 1,
 "setup_cmd": "cd /verif/harness && CARGO_NET_OFFLINE=true cargo build --bins",
 "hooks": {
   "guard": "cargo feature `verif` of the rs-matter crate",
   "enable": "the harness depends on /repo/rs-matter by path with features = [..., \"verif\"]; every ./check run does `cargo build` first",
   "baseline_off_cmd": "cd /repo && cargo nextest run --workspace --no-fail-fast --test-threads 8 --offline",
   "source_commits": [l.split()[0] for l in hook_commits],
   "add_only": True,
 },
 "engines": [
   {"name": "vh", "path": "/verif/harness", "serves_properties": sorted(CLAIMED),
    "kind_free_text": "Rust harness: proptest TestRunner drivers with explicit oracles (reference models, round-trips, differential/metamorphic relations, history invariants), deterministic virtual-time multi-node simulator, evidence writer"},
 ],
 "checks": checks,
 "notes": "See DESIGN.md. known_findings.json lists repaired (fixed:) and open findings.",
 "not_applicable": [{"property_id": p["id"], "reason": REASON_WIP} for p in props if p["id"] not in CLAIMED],
}
json.dump(m, open('/verif/MANIFEST.json', 'w'), indent=1)
print("claimed:", sorted(CLAIMED))
