#!/usr/bin/env python3
"""Regenerates /verif/MANIFEST.json from the table below (keeps it valid at all times)."""
import json, subprocess

props = [json.loads(l) for l in open('/verif/properties.jsonl')]

CLAIMED = {
 "C04": dict(level="exploration",
   text="Model-based property testing: generated histories of counter values are fed to the real receive window (RxCtrState/GroupCtrStore) and to a set-based reference model written from the statement; verdicts are compared in both directions on every step. In addition every (16-bit bitmap, distance -20..=20) one-step transition is enumerated exhaustively and followed by a probe of all neighbouring values. This is exploration (not proof) of the history space, exhaustive only for the one-step table.",
   note="Trusts the verif hooks to expose the real window state; the transport-level clause (duplicate surfaces before exchange processing) is exercised by the simulator checks C03/C09.",
   technique="proptest histories vs reference model + exhaustive one-step table",
   design="3/C04"),
 "C09": dict(level="exploration",
   text="Two real Matter stacks with planted CASE/PASE/plaintext sessions run a generated message script over an in-memory network whose per-datagram fate (deliver, drop, duplicate, delay, blackhole) is generated, under a virtual clock and a generated poll order; invariants R1-R6 over the wire tap and both application logs decide the property (at-most-once in-order delivery, Ok only if received, TxTimeout within the ladder instead of hang/Ok, Ok when delivered+acked, back-off lower bound, duplicates re-acknowledged). Exploration of the schedule/fault space, tens of thousands of adversarial conversations per quick run.",
   note="Sessions are planted through the public ReservedSession API (handshakes under loss are covered by C01/C02); all tasks share one waker (like the repository's select-based tests), so lost-wakeup bugs between independently woken tasks are out of reach; bounded virtual horizon of 150 s per conversation.",
   technique="deterministic simulation + generated fault/schedule plans, history invariants over wire tap",
   design="3/C09"),
}

REASON_WIP = "check not built yet in this session (work in progress, see DESIGN.md section 3 for the plan)"

checks = []
for pid in sorted(CLAIMED):
    c = CLAIMED[pid]
    checks.append({
        "property_id": pid,
        "quick_cmd": f"./check {pid} quick",
        "thorough_cmd": f"./check {pid} thorough",
        "evidence_file": f"/verif/evidence/{pid}.json",
        "replay_cmd_template": f"./check {pid} quick --replay {{path}}",
        "engine": "vh",
        "level_claimed": {"category": c["level"], "text": c["text"], "design_ref": c["design"]},
        "level_note": c["note"],
        "technique": c["technique"],
    })

hook_commits = subprocess.run(["git", "-C", "/repo", "log", "--format=%h %s", "--grep=^verif:"],
                              capture_output=True, text=True).stdout.strip().splitlines()

m = {
 "version": 1,
 "setup_cmd": "cd /verif/harness && CARGO_NET_OFFLINE=true cargo build --bins",
 "hooks": {
   "guard": "cargo feature `verif` of the rs-matter crate",
   "enable": "the harness depends on /repo/rs-matter by path with features = [..., \"verif\"]; every ./check run does `cargo build` first",
   "baseline_off_cmd": "cd /repo && cargo nextest run --workspace --no-fail-fast --test-threads 8 --offline",
   "source_commits": [l.split()[0] for l in hook_commits],
   "add_only": True,
 },
 "engines": [
   {"name": "vh", "path": "/verif/harness", "serves_properties": sorted(CLAIMED),
    "kind_free_text": "Rust harness: proptest TestRunner drivers with explicit oracles (reference models, round-trips, differential/metamorphic relations, history invariants), deterministic virtual-time multi-node simulator, evidence writer"},
 ],
 "checks": checks,
 "notes": "See DESIGN.md. known_findings.json lists repaired (fixed:) and open findings.",
 "not_applicable": [{"property_id": p["id"], "reason": REASON_WIP} for p in props if p["id"] not in CLAIMED],
}
json.dump(m, open('/verif/MANIFEST.json', 'w'), indent=1)
print("claimed:", sorted(CLAIMED))
