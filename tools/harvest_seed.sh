#!/bin/bash
# harvest_seed.sh <ID-N>: copy a seeding agent's deliverables into seeded/<ID-N>, write the
# mutate.sh edit script, remove the agent's worktree with its build output.
set -e
id=$1; lc=$(echo "$id" | tr 'A-Z' 'a-z'); wt=/tmp/seed-$lc
[ -f $wt/SEEDED/patch.diff ] || { echo "no deliverables in $wt"; exit 1; }
mkdir -p /verif/seeded/$id
cp $wt/SEEDED/patch.diff $wt/SEEDED/demo.diff $wt/SEEDED/meta.json /verif/seeded/$id/
mkdir -p /tmp/mut
cat > /tmp/mut/seed_$id.py <<P
import subprocess,sys
subprocess.check_call(["git","-C",sys.argv[1],"apply","/verif/seeded/$id/patch.diff"])
P
rm -rf $wt/target
git -C /repo worktree remove --force $wt
git -C /repo worktree prune
echo "harvested $id: $(grep -c '^[-+][^-+]' /verif/seeded/$id/patch.diff) changed lines"
