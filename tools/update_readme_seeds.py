#!/usr/bin/env python3
"""Regenerates the seed table in seeded/README.md from seeded/*/meta.json + confirm.log."""
import subprocess, re
t = subprocess.check_output(['python3', '/verif/tools/seed_table.py']).decode()
p = '/verif/seeded/README.md'
s = open(p).read()
s = re.sub(r'<!-- SEED-TABLE-BEGIN -->.*<!-- SEED-TABLE-END -->', '<!-- SEED-TABLE-BEGIN -->\n' + t + '<!-- SEED-TABLE-END -->', s, flags=re.S)
open(p, 'w').write(s)
