#!/usr/bin/env python3
"""seed_table.py — reads seeded/<ID>*/meta.json + confirm.log, writes the confirmation summary
into each meta.json (`confirmation`) and prints the markdown table for seeded/README.md."""
import json, re, glob, os
rows = []
for d in sorted(glob.glob('/verif/seeded/C*')):
    mp = os.path.join(d, 'meta.json')
    if not os.path.exists(mp):
        continue
    m = json.load(open(mp))
    lp = os.path.join(d, 'confirm.log')
    conf = {}
    if os.path.exists(lp):
        t = open(lp).read()
        g = re.search(r'demo on unchanged tree: exit (\d+).*with the change: exit (\d+)', t)
        if g:
            conf['demo_unchanged_exit'] = int(g.group(1)); conf['demo_changed_exit'] = int(g.group(2))
        g = re.search(r'Summary \[.*?\] (\d+) tests run: (\d+) passed, (\d+) failed', t)
        if g:
            conf['repo_tests'] = f"{g.group(2)} passed, {g.group(3)} failed (the one known failure)" if g.group(3) == '1' else f"{g.group(2)} passed, {g.group(3)} failed"
        checks = []
        for blk in re.split(r'== check ', t)[1:]:
            name = blk.split()[0]
            sigs = sorted(set(re.findall(r'signature: (\S+)', blk)))
            ex = re.search(r'exit=(\d+)', blk)
            checks.append({'bin': name, 'exit': int(ex.group(1)) if ex else None, 'signatures': sigs})
        conf['checks'] = checks
        conf['caught'] = any(c['exit'] == 1 for c in checks)
    if 'caught_by' in m and not conf.get('caught'):
        conf['caught_by_other_check'] = m['caught_by']
    m['confirmation'] = conf
    json.dump(m, open(mp, 'w'), indent=1)
    name = os.path.basename(d)
    if conf.get('caught'):
        by = '; '.join(f"{c['bin']}: {', '.join(c['signatures'][:3])}" for c in conf['checks'] if c['exit'] == 1)
    elif 'caught_by' in m:
        by = f"(own check silent) {m['caught_by']}"
    elif conf:
        by = '**missed**'
    else:
        by = 'not confirmed yet'
    rows.append(f"| {name} | {m['summary'][:260].replace('|','/')} | {by} |")
print("| seed | change | caught by |\n|---|---|---|")
print("\n".join(rows))
