#!/bin/bash
# tools/mutate.sh <scratch-name> <bin> <python-edit-script>  [-- harness args]
# Applies an edit (python script receiving the worktree path as argv[1]) to the scratch
# worktree, syncs the harness sources, builds <bin>, runs it, then reverts the worktree.
set -u
n="$1"; bin="$2"; edit="$3"; shift 3
[ "${1:-}" = "--" ] && shift
w="/tmp/w-$n"; h="/tmp/h-$n"
rsync -a --exclude target --exclude Cargo.toml --exclude .cargo /verif/harness/ "$h/"
git -C "$w" checkout -q -- . 
git -C "$w" checkout -q --detach "$(git -C /repo rev-parse HEAD)"
python3 "$edit" "$w" || { echo "EDIT FAILED"; exit 3; }
git -C "$w" diff --stat | tail -1
( cd "$h" && cargo build --bin "$bin" 2>&1 | grep -E "^error" -A8 | head -20 )
mkdir -p "$h/out"
cp /verif/known_findings.json "$h/out/known_findings.json"
VERIF_DIR="$h/out" "$h/target/debug/$bin" --no-evidence "$@" 2>&1 | grep -E "VIOLATION|signature|detail|total:|KNOWN|INCONCL" | cut -c1-400 | head -12
echo "exit=${PIPESTATUS[0]}"
git -C "$w" checkout -q -- .
