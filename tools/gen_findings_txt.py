#!/usr/bin/env python3
"""Render known_findings.json (what the checks read) as the line-oriented known_findings.txt."""
import json, re
k = json.load(open('/verif/known_findings.json'))
out = ["# Generated from known_findings.json by tools/gen_findings_txt.py — do not edit by hand.",
       "# open:  a genuine defect recorded, not repaired; the check prints KNOWN-FINDING for exactly this signature",
       "# fixed: repaired by the named `fix:` commit in /repo; suppresses nothing", ""]
for e in k:
    d = re.sub(r'^fixed: property=\S+\s*', '', e['description'])
    if e['status'] == 'fixed':
        out.append(f"fixed: property={e['property']} {e.get('commit','?')} [{e['signature']}] {d}")
    else:
        out.append(f"open: property={e['property']} [{e['signature']}] {d}")
open('/verif/known_findings.txt', 'w').write("\n".join(out) + "\n")
print(len(k), "entries")
