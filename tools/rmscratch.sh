#!/bin/bash
# tools/rmscratch.sh <name>
n="$1"
git -C /repo worktree remove --force "/tmp/w-$n" 2>/dev/null || true
rm -rf "/tmp/w-$n" "/tmp/h-$n"
git -C /repo worktree prune
